#!/usr/bin/env python3
"""Keep MANIFEST.json in step: hook commits of /repo (subjects starting with "verif") and the engine's property list.
usage: manifest_sync.py [claim <ID> <level-text-file> <note> ]"""
import json, subprocess, sys
M = '/verif/MANIFEST.json'
m = json.load(open(M))
log = subprocess.run(['git', '-C', '/repo', 'log', '--format=%H %s'], capture_output=True, text=True).stdout.splitlines()
hooks = [l.split()[0] for l in log if l.split(' ', 1)[1].startswith('verif')]
m['hooks']['source_commits'] = list(reversed(hooks))
claimed = sorted(c['property_id'] for c in m['checks'])
m['engines'][0]['serves_properties'] = claimed
m['not_applicable'] = [n for n in m['not_applicable'] if n['property_id'] not in claimed]
m['checks'].sort(key=lambda c: c['property_id'])
json.dump(m, open(M, 'w'), indent=1)
print('hooks:', len(hooks), 'claimed:', claimed, 'n/a:', [n['property_id'] for n in m['not_applicable']])
