#!/bin/bash
# seedcheck.sh <ID> <n> <demo-package-dir> : confirm a seeded change (compiles, targeted existing tests pass,
# demo fails with it / passes without) in the scratch worktree, then run ./check <ID> against /repo with the
# patch applied, and undo. Prints a summary; stores the seed under /verif/seeded/<ID>-<n>/.
set -u
if [ -n "$(git -C /repo status --porcelain)" ]; then echo "REFUSING: /repo has uncommitted changes (commit the hook files first)"; exit 2; fi
ID=$1; N=$2; PKGDIR=$3; TESTS=${4:-}
export PATH=/opt/veriftools/go1.26.8/bin:$PATH GOFLAGS=-mod=mod GOPROXY=off GOSUMDB=off GOTOOLCHAIN=local
WT=/tmp/wt/$ID; SO=$WT/seeded_out
OUT=/verif/seeded/$ID-$N; mkdir -p $OUT
cp $SO/patch$N.diff $OUT/patch.diff; cp $SO/demo${N}_test.go $OUT/demo_test.go; cp $SO/notes$N.md $OUT/notes.md
cd $WT && git checkout -q -- . && rm -f $PKGDIR/zz_seed_demo_test.go
cp $SO/demo${N}_test.go $PKGDIR/zz_seed_demo_test.go
echo "== demo on unmodified tree (must pass)"; go test -vet=off -count=1 -run 'Seed|Demo|Verif' ./$PKGDIR/ 2>&1 | tail -3 | tee $OUT/demo_without.txt
git apply $SO/patch$N.diff || { echo "PATCH DOES NOT APPLY"; exit 1; }
echo "== build with patch"; go build ./pilot/... ./pkg/... 2>&1 | tail -3
echo "== demo with patch (must fail)"; go test -vet=off -count=1 -run 'Seed|Demo|Verif' ./$PKGDIR/ 2>&1 | tail -6 | tee $OUT/demo_with.txt
rm -f $PKGDIR/zz_seed_demo_test.go
if [ -n "$TESTS" ]; then echo "== existing tests with patch: $TESTS"; go test -vet=off -count=1 $TESTS 2>&1 | tail -4 | tee $OUT/existing_tests_with.txt; fi
git checkout -q -- .
echo "== ./check $ID against /repo with the patch"
cd /repo && git apply $OUT/patch.diff && (cd /verif && GOVC_EVIDENCE_DIR=$OUT/evidence_with_patch ./check $ID --tier quick 2>&1 | grep -v "^  obligation" | tail -8 | tee $OUT/check_with_patch.txt); cd /repo && git checkout -- . && git status --short | head -3
