#!/bin/bash
# harmlesscheck.sh <worktree> <n> : apply a behaviour-preserving patch to /repo, run the quick checks of every
# property whose packages include a touched package, undo. Prints one line per property; any VIOLATION here is
# a false alarm of the machinery.
set -u
if [ -n "$(git -C /repo status --porcelain)" ]; then echo "REFUSING: /repo has uncommitted changes"; exit 2; fi
WT=$1; N=$2; P=$WT/harmless_out/patch$N.diff
PKGS=$(grep '^+++ b/' $P | sed 's#^+++ b/##; s#/[^/]*$##' | sort -u)
PROPS=$(python3 - "$PKGS" <<'PY'
import json,sys
pk=sys.argv[1].split()
pr=json.load(open('/verif/props.json'))
out=[]
for k,v in pr.items():
    if any(('istio.io/istio/'+p) in v.get('pkgs',[]) for p in pk): out.append(k)
print(' '.join(sorted(out)))
PY
)
echo "patch $N touches: $PKGS -> properties: $PROPS"
cd /repo && git apply $P || { echo "PATCH DOES NOT APPLY"; exit 1; }
for id in $PROPS; do
  (cd /verif && GOVC_EVIDENCE_DIR=/root/scratch/ev_harmless timeout 1500 ./check $id --tier quick 2>&1 | grep "VIOLATION\|quick:" | cut -c1-220)
done
cd /repo && git checkout -- . && git status --short | head -2
