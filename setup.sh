#!/bin/sh
# builds the govc engine offline
set -e
cd "$(dirname "$0")"
export PATH=/opt/veriftools/go1.26.8/bin:$PATH GOFLAGS=-mod=mod GOPROXY=off GOSUMDB=off GOTOOLCHAIN=local
mkdir -p bin evidence replays
(cd govc && go build -o ../bin/govc .)
