#!/bin/sh
# Builds the govc engine offline and warms the Go build cache for the packages under contract
# (export data with -tags=verif), so that the first check does not pay for it.
set -e
cd "$(dirname "$0")"
export PATH=/opt/veriftools/go1.26.8/bin:$PATH GOFLAGS=-mod=mod GOPROXY=off GOSUMDB=off GOTOOLCHAIN=local
mkdir -p bin evidence replays
(cd govc && go build -o ../bin/govc .)
pkgs=$(python3 -c "
import json
s=set()
for v in json.load(open('props.json')).values(): s.update(v['pkgs'])
print(' '.join(sorted(s)))")
(cd /repo && go build -tags=verif $pkgs istio.io/istio/pkg/verif) || true
