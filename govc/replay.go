package main

// tryReplay turns a solver model into a Go test against the real code. Returns true when the
// replayed input reproduces the failure on the compiled code.
func tryReplay(P *Program, r *HarnessResult, o *Obligation, vd, id string, payload map[string]interface{}) bool {
	payload["replay"] = "no executable replay could be generated for this obligation"
	return false
}

func cmdReplay(argv []string) int {
	return 2
}
