package main

import (
	"bytes"
	"encoding/json"
	"fmt"
	"go/types"
	"os"
	"os/exec"
	"path/filepath"
	"strings"
	"time"
)

// ---------------------------------------------------------------------------------------------
// Replay: model -> Go test against the real code (through `go test -overlay`, nothing is written
// into /repo).
// ---------------------------------------------------------------------------------------------

type layoutCtx struct {
	E       *Engine
	pkgPath string
	imports map[string]string // alias -> path
	alias   map[string]string // path -> alias
}

func (lc *layoutCtx) qual(p *types.Package) string {
	if p.Path() == lc.pkgPath {
		return ""
	}
	if a, ok := lc.alias[p.Path()]; ok {
		return a
	}
	a := fmt.Sprintf("vr%d", len(lc.alias)+1)
	lc.alias[p.Path()] = a
	lc.imports[a] = p.Path()
	return a
}

func (lc *layoutCtx) goType(t types.Type) string {
	return types.TypeString(t, lc.qual)
}

func (lc *layoutCtx) layout(t types.Type, depth int, onPath map[string]bool) map[string]interface{} {
	E := lc.E
	out := map[string]interface{}{"go": lc.goType(t)}
	ut := types.Unalias(t).Underlying()
	if depth > 7 {
		out["k"] = "opaque"
		return out
	}
	switch tt := ut.(type) {
	case *types.Basic:
		info := tt.Info()
		switch {
		case info&types.IsBoolean != 0:
			out["k"] = "bool"
		case info&types.IsInteger != 0:
			out["k"] = "int"
			out["basic"] = tt.Name()
			lo, hi := intRange(tt.Kind())
			if lo != "" {
				out["lo"], out["hi"] = lo, hi
			}
		case info&types.IsFloat != 0:
			out["k"] = "float"
		case info&types.IsString != 0:
			out["k"] = "string"
		default:
			out["k"] = "opaque"
		}
	case *types.Pointer:
		out["k"] = "ptr"
		el := tt.Elem()
		if isStruct(el) {
			out["elem"] = lc.structRef(el, depth+1, onPath)
		} else {
			l := lc.layout(el, depth+1, onPath)
			k, _ := E.cellKey(E.sortOf(el, nil))
			l["cell"] = k
			out["elem"] = l
		}
	case *types.Struct:
		out["k"] = "structval"
		si := E.structInfoOf(t, nil)
		var fields []map[string]interface{}
		if si != nil && si.sort != SUnit {
			for i := 0; i < tt.NumFields(); i++ {
				f := tt.Field(i)
				fields = append(fields, map[string]interface{}{"name": f.Name(), "acc": si.fields[i].name, "l": lc.layout(f.Type(), depth+1, onPath), "settable": lc.settable(f)})
			}
		}
		out["fields"] = fields
	case *types.Slice:
		out["k"] = "slice"
		k, _ := E.arrKey(tt.Elem(), nil)
		out["arr"] = k
		out["elem"] = lc.layout(tt.Elem(), depth+1, onPath)
	case *types.Map:
		out["k"] = "map"
		k, _ := E.mdomKey(tt, nil)
		out["dom"] = k
		out["key"] = lc.layout(tt.Key(), depth+1, onPath)
		if E.sortOf(tt.Elem(), nil) != SUnit {
			vk, _ := E.mvalKey(tt, nil)
			out["val"] = vk
			out["elem"] = lc.layout(tt.Elem(), depth+1, onPath)
		}
	case *types.Interface:
		out["k"] = "iface"
	case *types.Signature:
		out["k"] = "func"
	default:
		out["k"] = "opaque"
	}
	return out
}

func (lc *layoutCtx) settable(f *types.Var) bool {
	return f.Exported() || (f.Pkg() != nil && f.Pkg().Path() == lc.pkgPath)
}

func (lc *layoutCtx) structRef(t types.Type, depth int, onPath map[string]bool) map[string]interface{} {
	E := lc.E
	out := map[string]interface{}{"go": lc.goType(t), "k": "structref"}
	name := types.TypeString(t, nil)
	if onPath[name] || depth > 7 {
		out["fields"] = []interface{}{}
		return out
	}
	onPath[name] = true
	defer delete(onPath, name)
	si := E.structInfoOf(t, nil)
	var fields []map[string]interface{}
	if si != nil {
		st := si.st
		for i := 0; i < st.NumFields(); i++ {
			f := st.Field(i)
			if !lc.settable(f) {
				continue
			}
			ft := f.Type()
			if isStruct(ft) {
				if E.structInfoOf(ft, nil).sort == SUnit {
					continue
				}
				n := "sub$" + si.name + "." + f.Name()
				if _, used := E.tb.funcs[n]; !used {
					continue
				}
				fields = append(fields, map[string]interface{}{"name": f.Name(), "sub": n, "l": lc.structRef(ft, depth+1, onPath), "settable": true})
				continue
			}
			k, _ := E.fieldKey(si, i)
			// only fields the verification actually looked at
			if _, touched := E.tb.consts[k+"@1"]; !touched {
				continue
			}
			fields = append(fields, map[string]interface{}{"name": f.Name(), "key": k, "l": lc.layout(ft, depth+1, onPath), "settable": true})
		}
	}
	out["fields"] = fields
	return out
}

// tryReplay turns the solver's model into a Go test against the real code. Returns true when the
// replayed input reproduces the failure on the compiled code.
func tryReplay(P *Program, r *HarnessResult, o *Obligation, vd, id string, payload map[string]interface{}) bool {
	if r.E == nil || o.Query == "" {
		payload["replay"] = "no query kept"
		return false
	}
	switch o.Kind {
	case "safe", "post", "assert":
	default:
		payload["replay"] = "obligations of kind " + o.Kind + " (call-site preconditions, invariants, frames) have no executable replay"
		return false
	}
	h := r.H
	pkgPath := h.Fn.Pkg.Pkg.Path()
	lc := &layoutCtx{E: r.E, pkgPath: pkgPath, imports: map[string]string{}, alias: map[string]string{}}
	verifAlias := lc.qual(types.NewPackage("istio.io/istio/pkg/verif", "verif"))
	var params []map[string]interface{}
	for _, p := range h.Fn.Params {
		params = append(params, map[string]interface{}{"name": p.Name(), "l": lc.layout(p.Type(), 0, map[string]bool{})})
	}
	if h.Fn.TypeParams() != nil && h.Fn.TypeParams().Len() > 0 {
		payload["replay"] = "generic contract: no executable replay"
		return false
	}
	lay := map[string]interface{}{"package": h.Fn.Pkg.Pkg.Name(), "imports": lc.imports, "verif": verifAlias, "harness": h.Fn.Name(), "params": params, "strlits": r.E.strLitText}
	dir, err := os.MkdirTemp("", "govc-replay")
	if err != nil {
		return false
	}
	defer os.RemoveAll(dir)
	lp := filepath.Join(dir, "layout.json")
	data, _ := json.MarshalIndent(lay, "", " ")
	os.WriteFile(lp, data, 0o644)
	testFile := filepath.Join(dir, "replay_test.go")
	script := filepath.Join(vd, "govc", "replay_extract.py")
	out, err := exec.Command("/opt/veriftools/pyvenv/bin/python3", script, o.Query, lp, testFile).CombinedOutput()
	if err != nil {
		payload["replay"] = "model extraction failed: " + strings.TrimSpace(string(out))
		return false
	}
	src, _ := os.ReadFile(testFile)
	payload["replay_test"] = string(src)
	outcome, raw := runReplayTest(P, pkgPath, testFile, dir)
	payload["replay_outcome"] = outcome
	if outcome == "" {
		payload["replay_output"] = tail(raw, 4000)
	}
	// keep the test next to the replay file so that `govc replay` can re-run it
	keep := filepath.Join(vd, "replays", id, sanitizeFile(o.Name)+"_test.go.txt")
	os.WriteFile(keep, src, 0o644)
	payload["replay_test_file"] = keep
	payload["replay_package"] = pkgPath
	label := o.Name[strings.Index(o.Name, ":")+1:]
	if i := strings.LastIndex(label, "/"); i >= 0 && o.Kind != "safe" {
		label = label[:i]
	}
	switch o.Kind {
	case "safe":
		return strings.HasPrefix(outcome, "runtime-panic")
	default:
		return outcome == "assertion-failed "+label
	}
}

func tail(s string, n int) string {
	if len(s) > n {
		return s[len(s)-n:]
	}
	return s
}

func pkgDir(P *Program, pkgPath string) string {
	for _, p := range P.pkgs {
		if p.PkgPath == pkgPath && len(p.GoFiles) > 0 {
			return filepath.Dir(p.GoFiles[0])
		}
	}
	return ""
}

// runReplayTest injects the test into the package through an overlay and runs it.
func runReplayTest(P *Program, pkgPath, testFile, dir string) (string, string) {
	pd := ""
	if P != nil {
		pd = pkgDir(P, pkgPath)
	}
	if pd == "" {
		pd = filepath.Join("/repo", strings.TrimPrefix(pkgPath, "istio.io/istio/"))
	}
	ov := map[string]interface{}{"Replace": map[string]string{filepath.Join(pd, "zz_verif_replay_test.go"): testFile}}
	ovp := filepath.Join(dir, "overlay.json")
	data, _ := json.Marshal(ov)
	os.WriteFile(ovp, data, 0o644)
	goEnv()
	cmd := exec.Command("go", "test", "-tags", "verif", "-overlay", ovp, "-vet=off", "-count=1", "-timeout", "120s", "-run", "^TestVerifReplay$", "-v", pkgPath)
	cmd.Dir = "/repo"
	var buf bytes.Buffer
	cmd.Stdout = &buf
	cmd.Stderr = &buf
	done := make(chan error, 1)
	go func() { done <- cmd.Run() }()
	select {
	case <-done:
	case <-time.After(15 * time.Minute):
		if cmd.Process != nil {
			cmd.Process.Kill()
		}
	}
	raw := buf.String()
	for _, line := range strings.Split(raw, "\n") {
		if i := strings.Index(line, "VERIF-REPLAY: "); i >= 0 {
			return strings.TrimSpace(line[i+len("VERIF-REPLAY: "):]), raw
		}
	}
	return "", raw
}

// govc replay <replay.json>: re-run a stored replay against the current tree.
func cmdReplay(argv []string) int {
	if len(argv) < 1 {
		usage()
	}
	var payload map[string]interface{}
	if err := loadJSON(argv[0], &payload); err != nil {
		fmt.Fprintln(os.Stderr, err)
		return 2
	}
	fmt.Printf("obligation: %v\nreason: %v\n", payload["obligation"], payload["reason"])
	tf, _ := payload["replay_test_file"].(string)
	pkg, _ := payload["replay_package"].(string)
	if tf == "" || pkg == "" {
		fmt.Println("no executable replay is attached to this violation (no-failing-input-found); solver output and query are in the file")
		return 1
	}
	dir, err := os.MkdirTemp("", "govc-replay")
	if err != nil {
		return 2
	}
	defer os.RemoveAll(dir)
	src, err := os.ReadFile(tf)
	if err != nil {
		fmt.Fprintln(os.Stderr, err)
		return 2
	}
	test := filepath.Join(dir, "replay_test.go")
	os.WriteFile(test, src, 0o644)
	outcome, raw := runReplayTest(nil, pkg, test, dir)
	fmt.Println("replay outcome:", outcome)
	if outcome == "" {
		fmt.Println(tail(raw, 3000))
	}
	if strings.HasPrefix(outcome, "runtime-panic") || strings.HasPrefix(outcome, "assertion-failed") {
		return 1
	}
	return 0
}
