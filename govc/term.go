package main

import (
	"fmt"
	"sort"
	"strconv"
	"strings"
)

// ---------------------------------------------------------------------------------------------
// Terms: hash-consed SMT-LIB term DAG.
// ---------------------------------------------------------------------------------------------

type Sort string

const (
	SBool Sort = "Bool"
	SInt  Sort = "Int"
	SReal Sort = "Real"
	SRef  Sort = "Ref"
	SUnit Sort = "Unit"
	SSlc  Sort = "Slice"
	SIfc  Sort = "Iface"
	SFn   Sort = "Ref" // opaque function values
)

func ArraySort(k, v Sort) Sort { return Sort("(Array " + string(k) + " " + string(v) + ")") }

func (s Sort) IsArray() bool { return strings.HasPrefix(string(s), "(Array ") }

// ArrayParts splits "(Array K V)".
func (s Sort) ArrayParts() (Sort, Sort) {
	str := string(s)
	str = str[len("(Array ") : len(str)-1]
	// first component: balanced
	depth := 0
	for i := 0; i < len(str); i++ {
		switch str[i] {
		case '(':
			depth++
		case ')':
			depth--
		case ' ':
			if depth == 0 {
				return Sort(str[:i]), Sort(str[i+1:])
			}
		}
	}
	panic("bad array sort " + string(s))
}

type Term struct {
	id    int
	op    string // SMT head symbol, or "" for atoms
	atom  string // printed text for atoms (constants, literals, bound variables)
	args  []*Term
	sort  Sort
	bound bool // contains a free bound variable (cannot be hoisted into a top-level definition)
	fv    []*Term
	qvars []*Term // for quantifiers: bound variables
	kind  termKind
	size  int
}

type termKind int

const (
	kApp termKind = iota
	kConst
	kLit
	kBVar
	kQuant
)

type TermBank struct {
	tab    map[string]*Term
	nextID int
	// declarations
	consts          map[string]Sort     // declared constants
	funcs           map[string]funcDecl // declared uninterpreted functions
	sorts           map[Sort]bool       // declared uninterpreted sorts
	dtypes          []dtypeDecl         // datatypes in dependency order
	dtypeSet        map[Sort]bool
	axioms          []namedAxiom // global axioms, tagged with the symbols that trigger inclusion
	fresh           int
	strLits         map[string]*Term // UF-mode string literals
	useStrings      bool             // SMT string theory instead of UF strings
	axiomNames      map[string]bool
	symMemo         map[*Term]map[string]bool
	noSyms          map[*Term]bool
	dropQuantAxioms bool
	strLitLen       map[*Term]int
}

type funcDecl struct {
	args []Sort
	res  Sort
}

type dtypeDecl struct {
	sort   Sort
	ctor   string
	fields []dtField
}

type dtField struct {
	name string
	sort Sort
}

type namedAxiom struct {
	name string
	t    *Term
	syms []string // included only if all of these symbols are in use ("" = always)
	trig *Term    // included only if this term occurs in the query
}

func NewTermBank() *TermBank {
	tb := &TermBank{
		tab:        map[string]*Term{},
		consts:     map[string]Sort{},
		funcs:      map[string]funcDecl{},
		sorts:      map[Sort]bool{},
		dtypeSet:   map[Sort]bool{},
		strLits:    map[string]*Term{},
		axiomNames: map[string]bool{},
		noSyms:     map[*Term]bool{},
		strLitLen:  map[*Term]int{},
	}
	return tb
}

func (tb *TermBank) intern(t *Term) *Term {
	var sb strings.Builder
	sb.WriteString(t.op)
	sb.WriteByte('|')
	sb.WriteString(t.atom)
	sb.WriteByte('|')
	sb.WriteString(string(t.sort))
	for _, a := range t.args {
		sb.WriteByte(',')
		sb.WriteString(strconv.Itoa(a.id))
	}
	for _, a := range t.qvars {
		sb.WriteByte(';')
		sb.WriteString(strconv.Itoa(a.id))
	}
	k := sb.String()
	if e, ok := tb.tab[k]; ok {
		return e
	}
	tb.nextID++
	t.id = tb.nextID
	t.size = 1
	for _, a := range t.args {
		t.fv = unionFV(t.fv, a.fv)
		t.size += a.size
		if t.size > 1<<30 {
			t.size = 1 << 30
		}
	}
	if t.kind == kBVar {
		t.fv = []*Term{t}
	}
	if t.kind == kQuant {
		var fv []*Term
	outer:
		for _, v := range t.fv {
			for _, q := range t.qvars {
				if q == v {
					continue outer
				}
			}
			fv = append(fv, v)
		}
		t.fv = fv
	}
	t.bound = len(t.fv) > 0
	tb.tab[k] = t
	return t
}

func unionFV(a, b []*Term) []*Term {
	if len(a) == 0 {
		return b
	}
	if len(b) == 0 {
		return a
	}
	out := append([]*Term{}, a...)
outer:
	for _, x := range b {
		for _, y := range a {
			if x == y {
				continue outer
			}
		}
		out = append(out, x)
	}
	return out
}

// ---- declarations ----

func (tb *TermBank) DeclSort(s Sort) {
	tb.sorts[s] = true
}

func (tb *TermBank) DeclDatatype(s Sort, ctor string, fields []dtField) {
	if tb.dtypeSet[s] {
		return
	}
	tb.dtypeSet[s] = true
	tb.dtypes = append(tb.dtypes, dtypeDecl{s, ctor, fields})
}

func (tb *TermBank) Const(name string, s Sort) *Term {
	if old, ok := tb.consts[name]; ok && old != s {
		panic(fmt.Sprintf("const %s redeclared %s vs %s", name, old, s))
	}
	tb.consts[name] = s
	return tb.intern(&Term{atom: name, sort: s, kind: kConst})
}

func (tb *TermBank) Fresh(prefix string, s Sort) *Term {
	tb.fresh++
	return tb.Const(fmt.Sprintf("%s!%d", sanitize(prefix), tb.fresh), s)
}

func (tb *TermBank) BVar(prefix string, s Sort) *Term {
	tb.fresh++
	return tb.intern(&Term{atom: fmt.Sprintf("%s?%d", sanitize(prefix), tb.fresh), sort: s, kind: kBVar})
}

func (tb *TermBank) DeclFunc(name string, args []Sort, res Sort) {
	if old, ok := tb.funcs[name]; ok {
		if old.res != res || len(old.args) != len(args) {
			panic("func redeclared differently: " + name)
		}
		return
	}
	tb.funcs[name] = funcDecl{args, res}
}

func (tb *TermBank) UF(name string, res Sort, args ...*Term) *Term {
	as := make([]Sort, len(args))
	for i, a := range args {
		as[i] = a.sort
	}
	tb.DeclFunc(name, as, res)
	if len(args) == 0 {
		return tb.Const(name, res)
	}
	return tb.App(name, res, args...)
}

func (tb *TermBank) AddAxiom(name string, t *Term, syms ...string) {
	if tb.axiomNames[name] {
		return
	}
	tb.axiomNames[name] = true
	tb.axioms = append(tb.axioms, namedAxiom{name: name, t: t, syms: syms})
}

// AddTermAxiom registers a fact that is included in exactly those queries in which trig occurs.
func (tb *TermBank) AddTermAxiom(name string, t *Term, trig *Term) {
	if tb.axiomNames[name] {
		return
	}
	tb.axiomNames[name] = true
	tb.axioms = append(tb.axioms, namedAxiom{name: name, t: t, trig: trig})
}

func sanitize(s string) string {
	var sb strings.Builder
	for _, r := range s {
		switch {
		case r >= 'a' && r <= 'z', r >= 'A' && r <= 'Z', r >= '0' && r <= '9', r == '_', r == '.', r == '$', r == '!', r == '@', r == '~', r == '-', r == '+', r == '%', r == '^', r == '&', r == '*', r == '/', r == '<', r == '>', r == '=', r == '?':
			sb.WriteRune(r)
		default:
			sb.WriteByte('_')
		}
	}
	return sb.String()
}

// ---- constructors with light simplification ----

func (tb *TermBank) App(op string, s Sort, args ...*Term) *Term {
	return tb.intern(&Term{op: op, args: args, sort: s, kind: kApp})
}

func (tb *TermBank) True() *Term  { return tb.intern(&Term{atom: "true", sort: SBool, kind: kLit}) }
func (tb *TermBank) False() *Term { return tb.intern(&Term{atom: "false", sort: SBool, kind: kLit}) }
func (tb *TermBank) Bool(b bool) *Term {
	if b {
		return tb.True()
	}
	return tb.False()
}

func (tb *TermBank) Int(v int64) *Term {
	if v < 0 {
		return tb.intern(&Term{atom: "(- " + strconv.FormatUint(uint64(-v), 10) + ")", sort: SInt, kind: kLit})
	}
	return tb.intern(&Term{atom: strconv.FormatInt(v, 10), sort: SInt, kind: kLit})
}

func (tb *TermBank) IntStr(v string) *Term {
	if strings.HasPrefix(v, "-") {
		return tb.intern(&Term{atom: "(- " + v[1:] + ")", sort: SInt, kind: kLit})
	}
	return tb.intern(&Term{atom: v, sort: SInt, kind: kLit})
}

func (tb *TermBank) Real(v string) *Term {
	if strings.HasPrefix(v, "-") {
		return tb.intern(&Term{atom: "(- " + v[1:] + ")", sort: SReal, kind: kLit})
	}
	return tb.intern(&Term{atom: v, sort: SReal, kind: kLit})
}

func (t *Term) IsTrue() bool  { return t.kind == kLit && t.atom == "true" }
func (t *Term) IsFalse() bool { return t.kind == kLit && t.atom == "false" }
func (t *Term) IntVal() (int64, bool) {
	if t.kind != kLit || t.sort != SInt {
		return 0, false
	}
	a := t.atom
	neg := false
	if strings.HasPrefix(a, "(- ") {
		neg = true
		a = a[3 : len(a)-1]
	}
	v, err := strconv.ParseInt(a, 10, 64)
	if err != nil {
		return 0, false
	}
	if neg {
		v = -v
	}
	return v, true
}

func (tb *TermBank) Not(a *Term) *Term {
	if a.IsTrue() {
		return tb.False()
	}
	if a.IsFalse() {
		return tb.True()
	}
	if a.op == "not" {
		return a.args[0]
	}
	return tb.App("not", SBool, a)
}

func (tb *TermBank) And(as ...*Term) *Term {
	var out []*Term
	seen := map[*Term]bool{}
	for _, a := range as {
		if a.IsTrue() {
			continue
		}
		if a.IsFalse() {
			return tb.False()
		}
		if a.op == "and" {
			for _, b := range a.args {
				if !seen[b] {
					seen[b] = true
					out = append(out, b)
				}
			}
			continue
		}
		if !seen[a] {
			seen[a] = true
			out = append(out, a)
		}
	}
	for _, a := range out {
		if a.op == "not" && seen[a.args[0]] {
			return tb.False()
		}
	}
	// unit resolution inside negated conjunctions: a ∧ ¬(a ∧ x) = a ∧ ¬x ; also inside disjunctions
	// a ∧ (¬a ∨ x) = a ∧ x
	for i, a := range out {
		if a.op == "not" && a.args[0].op == "and" {
			var rest []*Term
			changed := false
			for _, y := range a.args[0].args {
				if seen[y] {
					changed = true
					continue
				}
				rest = append(rest, y)
			}
			if changed {
				na := tb.Not(tb.And(rest...))
				no := append(append([]*Term{}, out[:i]...), na)
				no = append(no, out[i+1:]...)
				return tb.And(no...)
			}
		}
		if a.op == "or" {
			var rest []*Term
			changed := false
			for _, y := range a.args {
				if y.op == "not" && seen[y.args[0]] {
					changed = true
					continue
				}
				rest = append(rest, y)
			}
			if changed {
				na := tb.Or(rest...)
				no := append(append([]*Term{}, out[:i]...), na)
				no = append(no, out[i+1:]...)
				return tb.And(no...)
			}
		}
	}
	if len(out) == 0 {
		return tb.True()
	}
	if len(out) == 1 {
		return out[0]
	}
	return tb.App("and", SBool, out...)
}

func (tb *TermBank) Or(as ...*Term) *Term {
	var out []*Term
	seen := map[*Term]bool{}
	for _, a := range as {
		if a.IsFalse() {
			continue
		}
		if a.IsTrue() {
			return tb.True()
		}
		if a.op == "or" {
			for _, b := range a.args {
				if !seen[b] {
					seen[b] = true
					out = append(out, b)
				}
			}
			continue
		}
		if !seen[a] {
			seen[a] = true
			out = append(out, a)
		}
	}
	for _, a := range out {
		if a.op == "not" && seen[a.args[0]] {
			return tb.True()
		}
	}
	if len(out) > 1 && len(out) <= 24 {
		out = tb.orCombine(out)
	}
	if len(out) == 0 {
		return tb.False()
	}
	if len(out) == 1 {
		return out[0]
	}
	return tb.App("or", SBool, out...)
}

func conjuncts(t *Term) []*Term {
	if t.op == "and" {
		return t.args
	}
	return []*Term{t}
}

// orCombine merges disjuncts (X ∧ c) ∨ (X ∧ ¬c) into X and drops absorbed disjuncts; this keeps
// reachability conditions of re-joined branches small.
func (tb *TermBank) orCombine(ds []*Term) []*Term {
	for changed := true; changed && len(ds) > 1; {
		changed = false
	outer:
		for i := 0; i < len(ds); i++ {
			for j := 0; j < len(ds); j++ {
				if i == j {
					continue
				}
				a, b := conjuncts(ds[i]), conjuncts(ds[j])
				inB := map[*Term]bool{}
				for _, x := range b {
					inB[x] = true
				}
				// absorption: a ⊆ b  =>  drop b
				sub := true
				var onlyA []*Term
				for _, x := range a {
					if !inB[x] {
						sub = false
						onlyA = append(onlyA, x)
					}
				}
				if sub {
					ds = append(ds[:j], ds[j+1:]...)
					changed = true
					break outer
				}
				// complementary remainders: (X ∧ P) ∨ (X ∧ ¬P)  =>  X
				inA := map[*Term]bool{}
				for _, x := range a {
					inA[x] = true
				}
				var onlyB, common []*Term
				for _, x := range b {
					if !inA[x] {
						onlyB = append(onlyB, x)
					} else {
						common = append(common, x)
					}
				}
				if len(onlyA) > 0 && len(onlyB) > 0 && (len(onlyA) == 1 || len(onlyB) == 1) {
					pa, pb := tb.And(onlyA...), tb.And(onlyB...)
					if tb.Not(pa) == pb || tb.Not(pb) == pa {
						m := tb.And(common...)
						if m.IsTrue() {
							return []*Term{m}
						}
						var nd []*Term
						for k, d := range ds {
							if k != i && k != j {
								nd = append(nd, d)
							}
						}
						ds = append(nd, m)
						changed = true
						break outer
					}
				}
			}
		}
	}
	return ds
}

func (tb *TermBank) Implies(a, b *Term) *Term {
	if a.IsTrue() {
		return b
	}
	if a.IsFalse() || b.IsTrue() {
		return tb.True()
	}
	if b.IsFalse() {
		return tb.Not(a)
	}
	return tb.App("=>", SBool, a, b)
}

func (tb *TermBank) Eq(a, b *Term) *Term {
	if a == b {
		return tb.True()
	}
	if a.sort != b.sort {
		panic(fmt.Sprintf("Eq sort mismatch: %s vs %s (%s = %s)", a.sort, b.sort, tb.Show(a), tb.Show(b)))
	}
	if a.kind == kLit && b.kind == kLit {
		return tb.Bool(a.atom == b.atom)
	}
	if distinctLits(a, b) {
		return tb.False()
	}
	if a.sort == SBool {
		if a.IsTrue() {
			return b
		}
		if b.IsTrue() {
			return a
		}
		if a.IsFalse() {
			return tb.Not(b)
		}
		if b.IsFalse() {
			return tb.Not(a)
		}
	}
	if a.id > b.id {
		a, b = b, a
	}
	return tb.App("=", SBool, a, b)
}

func (tb *TermBank) Ite(c, a, b *Term) *Term {
	if c.IsTrue() {
		return a
	}
	if c.IsFalse() {
		return b
	}
	if a == b {
		return a
	}
	if a.sort != b.sort {
		panic(fmt.Sprintf("Ite sort mismatch: %s vs %s", a.sort, b.sort))
	}
	if a.sort == SBool {
		if a.IsTrue() && b.IsFalse() {
			return c
		}
		if a.IsFalse() && b.IsTrue() {
			return tb.Not(c)
		}
		if a.IsTrue() {
			return tb.Or(c, b)
		}
		if b.IsFalse() {
			return tb.And(c, a)
		}
		if a.IsFalse() {
			return tb.And(tb.Not(c), b)
		}
		if b.IsTrue() {
			return tb.Or(tb.Not(c), a)
		}
	}
	return tb.App("ite", a.sort, c, a, b)
}

func (tb *TermBank) Select(arr, idx *Term) *Term {
	if !arr.sort.IsArray() {
		panic("select on non-array " + string(arr.sort))
	}
	ks, vs := arr.sort.ArrayParts()
	if idx.sort != ks {
		panic(fmt.Sprintf("select index sort mismatch: array %s index %s", arr.sort, idx.sort))
	}
	// select over store with syntactically equal index
	cur := arr
	for cur.op == "store" {
		if cur.args[1] == idx {
			return cur.args[2]
		}
		if distinctLits(cur.args[1], idx) {
			cur = cur.args[0]
			continue
		}
		break
	}
	if cur != arr && cur.op != "store" {
		arr = cur
	}
	if arr.op == "const-array" {
		return arr.args[0]
	}
	if arr.op == "ite" && !idx.bound {
		a, b := tb.Select(arr.args[1], idx), tb.Select(arr.args[2], idx)
		if a == b {
			return a
		}
		if !(a.op == "select" && a.args[0] == arr.args[1]) || !(b.op == "select" && b.args[0] == arr.args[2]) {
			return tb.Ite(arr.args[0], a, b)
		}
	}
	return tb.App("select", vs, arr, idx)
}

// isAddrConst: names of freshly allocated objects (&...) and of package-level variables (g$...):
// pairwise distinct, non-nil addresses.
func isAddrConst(s string) bool { return strings.HasPrefix(s, "&") || strings.HasPrefix(s, "g$") }

func distinctLits(a, b *Term) bool {
	if a.kind == kLit && b.kind == kLit && a.atom != b.atom {
		return true
	}
	// freshly allocated references are pairwise distinct and distinct from null
	if a.kind == kConst && b.kind == kConst && a != b && a.sort == SRef {
		af, bf := isAddrConst(a.atom), isAddrConst(b.atom)
		if af && bf {
			return true
		}
		if (af && b.atom == "null") || (bf && a.atom == "null") {
			return true
		}
	}
	return false
}

func (tb *TermBank) Store(arr, idx, val *Term) *Term {
	ks, vs := arr.sort.ArrayParts()
	if idx.sort != ks || val.sort != vs {
		panic(fmt.Sprintf("store sort mismatch: array %s idx %s val %s", arr.sort, idx.sort, val.sort))
	}
	if arr.op == "store" && arr.args[1] == idx {
		arr = arr.args[0]
	}
	return tb.App("store", arr.sort, arr, idx, val)
}

func (tb *TermBank) ConstArray(s Sort, v *Term) *Term {
	if v.kind == kLit {
		return tb.intern(&Term{op: "const-array", args: []*Term{v}, sort: s, kind: kApp})
	}
	// cvc5 accepts only values as the default of a constant array: name the array and axiomatise it
	if v.bound {
		return tb.intern(&Term{op: "const-array", args: []*Term{v}, sort: s, kind: kApp})
	}
	name := fmt.Sprintf("constarr$%d$%s", v.id, sanitize(string(s)))
	c := tb.Const(name, s)
	ks, _ := s.ArrayParts()
	i := tb.BVar("i", ks)
	tb.AddTermAxiom("constarr:"+name, tb.Forall([]*Term{i}, tb.Eq(tb.App("select", v.sort, c, i), v)), c)
	return c
}

func (tb *TermBank) Arith(op string, a, b *Term) *Term {
	if av, ok := a.IntVal(); ok {
		if bv, ok2 := b.IntVal(); ok2 {
			switch op {
			case "+":
				return tb.Int(av + bv)
			case "-":
				return tb.Int(av - bv)
			case "*":
				return tb.Int(av * bv)
			}
		}
	}
	if op == "+" {
		if v, ok := b.IntVal(); ok && v == 0 {
			return a
		}
		if v, ok := a.IntVal(); ok && v == 0 {
			return b
		}
	}
	if op == "-" {
		if v, ok := b.IntVal(); ok && v == 0 {
			return a
		}
		if a == b && a.sort == SInt {
			return tb.Int(0)
		}
	}
	if op == "+" && a.sort == SInt {
		// T + (k - T) = k
		if b.op == "-" && len(b.args) == 2 && b.args[1] == a {
			return b.args[0]
		}
		if a.op == "-" && len(a.args) == 2 && a.args[1] == b {
			return a.args[0]
		}
	}
	return tb.App(op, a.sort, a, b)
}

func (tb *TermBank) Cmp(op string, a, b *Term) *Term {
	if av, ok := a.IntVal(); ok {
		if bv, ok2 := b.IntVal(); ok2 {
			switch op {
			case "<":
				return tb.Bool(av < bv)
			case "<=":
				return tb.Bool(av <= bv)
			case ">":
				return tb.Bool(av > bv)
			case ">=":
				return tb.Bool(av >= bv)
			}
		}
	}
	return tb.App(op, SBool, a, b)
}

func (tb *TermBank) Quant(q string, vars []*Term, body *Term) *Term {
	if body.IsTrue() || body.IsFalse() {
		return body
	}
	if len(vars) == 0 {
		return body
	}
	return tb.intern(&Term{op: q, args: []*Term{body}, qvars: vars, sort: SBool, kind: kQuant})
}

func (tb *TermBank) Forall(vars []*Term, body *Term) *Term { return tb.Quant("forall", vars, body) }
func (tb *TermBank) Exists(vars []*Term, body *Term) *Term { return tb.Quant("exists", vars, body) }

func termHasQuant(t *Term) bool {
	seen := map[*Term]bool{}
	var rec func(t *Term) bool
	rec = func(t *Term) bool {
		if seen[t] {
			return false
		}
		seen[t] = true
		if t.kind == kQuant {
			return true
		}
		for _, a := range t.args {
			if rec(a) {
				return true
			}
		}
		return false
	}
	return rec(t)
}

// Syms returns the uninterpreted symbols (constants and functions) occurring in t.
func (tb *TermBank) Syms(t *Term) map[string]bool {
	if tb.symMemo == nil {
		tb.symMemo = map[*Term]map[string]bool{}
	}
	if m, ok := tb.symMemo[t]; ok {
		return m
	}
	m := map[string]bool{}
	seen := map[*Term]bool{}
	var rec func(t *Term)
	rec = func(t *Term) {
		if seen[t] {
			return
		}
		seen[t] = true
		if tb.noSyms[t] {
			return // clock values connect everything; they never count as a relevance link
		}
		if t.kind == kConst {
			m[t.atom] = true
		}
		if t.kind == kApp {
			if _, ok := tb.funcs[t.op]; ok {
				m[t.op] = true
			}
		}
		for _, a := range t.args {
			rec(a)
		}
	}
	rec(t)
	tb.symMemo[t] = m
	return m
}

// Subst replaces terms by terms (used to instantiate bound variables).
func (tb *TermBank) Subst(t *Term, m map[*Term]*Term) *Term {
	memo := map[*Term]*Term{}
	var rec func(t *Term) *Term
	rec = func(t *Term) *Term {
		if r, ok := m[t]; ok {
			return r
		}
		if len(t.args) == 0 {
			return t
		}
		if r, ok := memo[t]; ok {
			return r
		}
		changed := false
		na := make([]*Term, len(t.args))
		for i, a := range t.args {
			na[i] = rec(a)
			if na[i] != a {
				changed = true
			}
		}
		var r *Term
		if !changed {
			r = t
		} else if t.kind == kQuant {
			r = tb.Quant(t.op, t.qvars, na[0])
		} else {
			r = tb.rebuild(t, na)
		}
		memo[t] = r
		return r
	}
	return rec(t)
}

func (tb *TermBank) rebuild(t *Term, na []*Term) *Term {
	switch t.op {
	case "and":
		return tb.And(na...)
	case "or":
		return tb.Or(na...)
	case "not":
		return tb.Not(na[0])
	case "=":
		return tb.Eq(na[0], na[1])
	case "ite":
		return tb.Ite(na[0], na[1], na[2])
	case "select":
		return tb.Select(na[0], na[1])
	case "store":
		return tb.Store(na[0], na[1], na[2])
	case "=>":
		return tb.Implies(na[0], na[1])
	case "const-array":
		return tb.ConstArray(t.sort, na[0])
	case "+", "-", "*":
		if len(na) == 2 && t.sort == SInt {
			return tb.Arith(t.op, na[0], na[1])
		}
	case "<", "<=", ">", ">=":
		if len(na) == 2 && na[0].sort == SInt {
			return tb.Cmp(t.op, na[0], na[1])
		}
	}
	return tb.App(t.op, t.sort, na...)
}

// ---- printing ----

func (tb *TermBank) Show(t *Term) string {
	var sb strings.Builder
	tb.write(&sb, t, nil)
	s := sb.String()
	if len(s) > 400 {
		s = s[:400] + "…"
	}
	return s
}

func (tb *TermBank) write(sb *strings.Builder, t *Term, named map[*Term]string) {
	if named != nil {
		if n, ok := named[t]; ok {
			sb.WriteString(n)
			return
		}
	}
	switch t.kind {
	case kConst, kLit, kBVar:
		sb.WriteString(smtSym(t))
		return
	case kQuant:
		sb.WriteString("(" + t.op + " (")
		for _, v := range t.qvars {
			sb.WriteString("(" + smtSym(v) + " " + string(v.sort) + ")")
		}
		sb.WriteString(") ")
		tb.write(sb, t.args[0], named)
		sb.WriteString(")")
		return
	}
	if t.op == "const-array" {
		sb.WriteString("((as const " + string(t.sort) + ") ")
		tb.write(sb, t.args[0], named)
		sb.WriteString(")")
		return
	}
	sb.WriteString("(")
	sb.WriteString(quoteSym(t.op))
	for _, a := range t.args {
		sb.WriteByte(' ')
		tb.write(sb, a, named)
	}
	sb.WriteString(")")
}

func smtSym(t *Term) string {
	if t.kind == kLit {
		return t.atom
	}
	return quoteSym(t.atom)
}

var smtBuiltin = map[string]bool{"and": true, "or": true, "not": true, "=>": true, "=": true, "ite": true, "select": true, "store": true,
	"+": true, "-": true, "*": true, "<": true, "<=": true, ">": true, ">=": true, "div": true, "mod": true, "/": true, "distinct": true,
	"str.++": true, "str.len": true, "str.prefixof": true, "str.suffixof": true, "str.contains": true, "str.substr": true, "str.at": true,
	"str.<": true, "str.<=": true, "str.indexof": true, "str.replace": true, "to_real": true, "to_int": true, "abs": true, "str.from_int": true, "str.to_int": true,
	"str.replace_all": true, "str.to_code": true, "str.from_code": true}

func quoteSym(s string) string {
	if smtBuiltin[s] {
		return s
	}
	for _, r := range s {
		if !(r >= 'a' && r <= 'z' || r >= 'A' && r <= 'Z' || r >= '0' && r <= '9' || r == '_' || r == '.' || r == '$' || r == '!' || r == '~' || r == '-') {
			return "|" + strings.ReplaceAll(s, "|", "_") + "|"
		}
	}
	return s
}

// Query renders a complete SMT-LIB script for: assertions ∧ ¬goal (goal may be nil for a sat check).
type Query struct {
	tb      *TermBank
	asserts []*Term
}

func (tb *TermBank) Script(asserts []*Term, wantModel bool) string {
	// collect reachable terms
	used := map[*Term]int{}
	var order []*Term
	usedConst := map[string]bool{}
	usedFunc := map[string]bool{}
	var visit func(t *Term)
	visit = func(t *Term) {
		used[t]++
		if used[t] > 1 {
			return
		}
		for _, a := range t.args {
			visit(a)
		}
		if t.kind == kConst {
			usedConst[t.atom] = true
		}
		if t.kind == kApp {
			if _, ok := tb.funcs[t.op]; ok {
				usedFunc[t.op] = true
			}
		}
		order = append(order, t)
	}
	all := append([]*Term{}, asserts...)
	for _, a := range all {
		visit(a)
	}
	// axioms: include when their trigger symbols are in use (iterate to a fixed point since axioms may mention more symbols)
	included := map[string]bool{}
	for changed := true; changed; {
		changed = false
		for _, ax := range tb.axioms {
			if included[ax.name] {
				continue
			}
			ok := true
			if ax.trig != nil && used[ax.trig] == 0 {
				ok = false
			}
			if tb.dropQuantAxioms && termHasQuant(ax.t) {
				ok = false
			}
			for _, s := range ax.syms {
				if s == "" {
					continue
				}
				if !usedFunc[s] && !usedConst[s] {
					ok = false
				}
			}
			if ok {
				included[ax.name] = true
				visit(ax.t)
				all = append(all, ax.t)
				changed = true
			}
		}
	}
	// UF-mode string literals in use: lengths and pairwise distinctness
	var lits []*Term
	for _, t := range order {
		if _, ok := tb.strLitLen[t]; ok {
			lits = append(lits, t)
		}
	}
	if len(lits) > 0 {
		sort.Slice(lits, func(i, j int) bool { return lits[i].id < lits[j].id })
		tb.DeclFunc("strlen", []Sort{"Str"}, SInt)
		usedFunc["strlen"] = true
		for _, l := range lits {
			all = append(all, tb.Eq(tb.App("strlen", SInt, l), tb.Int(int64(tb.strLitLen[l]))))
		}
		if len(lits) > 1 {
			all = append(all, tb.App("distinct", SBool, lits...))
		}
	}
	// freshly allocated references are pairwise distinct and non-null (the simplifier relies on it)
	var frefs []*Term
	for _, t := range order {
		if t.kind == kConst && t.sort == SRef && (isAddrConst(t.atom) || t.atom == "null") {
			frefs = append(frefs, t)
		}
	}
	if len(frefs) > 1 {
		sort.Slice(frefs, func(i, j int) bool { return frefs[i].id < frefs[j].id })
		all = append(all, tb.App("distinct", SBool, frefs...))
	}
	var sb strings.Builder
	sb.WriteString("(set-option :produce-models true)\n(set-logic ALL)\n")
	// sorts
	var sorts []string
	for s := range tb.sorts {
		sorts = append(sorts, string(s))
	}
	sort.Strings(sorts)
	for _, s := range sorts {
		sb.WriteString("(declare-sort " + s + " 0)\n")
	}
	for _, d := range tb.dtypes {
		sb.WriteString("(declare-datatypes ((" + string(d.sort) + " 0)) (((" + d.ctor)
		for _, f := range d.fields {
			sb.WriteString(" (" + quoteSym(f.name) + " " + string(f.sort) + ")")
		}
		sb.WriteString("))))\n")
	}
	var cs []string
	for c := range usedConst {
		cs = append(cs, c)
	}
	sort.Strings(cs)
	for _, c := range cs {
		sb.WriteString("(declare-fun " + quoteSym(c) + " () " + string(tb.consts[c]) + ")\n")
	}
	var fs []string
	for f := range usedFunc {
		if usedConst[f] {
			continue
		}
		fs = append(fs, f)
	}
	sort.Strings(fs)
	for _, f := range fs {
		d := tb.funcs[f]
		if len(d.args) == 0 {
			continue
		}
		sb.WriteString("(declare-fun " + quoteSym(f) + " (")
		for i, a := range d.args {
			if i > 0 {
				sb.WriteByte(' ')
			}
			sb.WriteString(string(a))
		}
		sb.WriteString(") " + string(d.res) + ")\n")
	}
	// shared non-bound subterms become definitions
	named := map[*Term]string{}
	for _, t := range order {
		if t.kind != kApp && t.kind != kQuant {
			continue
		}
		if t.bound {
			continue
		}
		if used[t] > 1 && t.size > 3 || t.size > 60 && len(t.args) > 0 {
			var body strings.Builder
			tb.write(&body, t, shadow(named, t))
			name := "$t" + strconv.Itoa(t.id)
			sb.WriteString("(define-fun " + name + " () " + string(t.sort) + " " + body.String() + ")\n")
			named[t] = name
		}
	}
	for _, a := range all {
		var body strings.Builder
		tb.write(&body, a, named)
		sb.WriteString("(assert " + body.String() + ")\n")
	}
	sb.WriteString("(check-sat)\n")
	if wantModel {
		sb.WriteString("(get-model)\n")
	}
	return sb.String()
}

// shadow returns the naming map without t itself (so its definition prints its body).
func shadow(named map[*Term]string, t *Term) map[*Term]string {
	return named // t is not yet in named when its definition is printed
}
