package main

import (
	"bytes"
	"context"
	"fmt"
	"os"
	"os/exec"
	"path/filepath"
	"strings"
	"sync"
	"time"
)

type SolverCfg struct {
	Name string
	Args func(file string, timeoutS int, seed int) []string
}

var solvers = map[string]SolverCfg{
	"z3-new": {"z3-new", func(f string, t int, seed int) []string {
		return []string{fmt.Sprintf("-T:%d", t), fmt.Sprintf("smt.random_seed=%d", seed), f}
	}},
	"z3": {"z3", func(f string, t int, seed int) []string {
		return []string{fmt.Sprintf("-T:%d", t), fmt.Sprintf("smt.random_seed=%d", seed), f}
	}},
	"cvc5": {"cvc5", func(f string, t int, seed int) []string {
		return []string{fmt.Sprintf("--tlimit=%d", t*1000), fmt.Sprintf("--seed=%d", seed), "--produce-models", f}
	}},
}

type solveResult struct {
	status string // unsat | sat | unknown | error
	solver string
	out    string
	ms     int64
}

func runSolverCtx(parent context.Context, name, file string, timeoutS int, seed int) solveResult {
	cfg := solvers[name]
	ctx, cancel := context.WithTimeout(parent, time.Duration(timeoutS+5)*time.Second)
	defer cancel()
	start := time.Now()
	cmd := exec.CommandContext(ctx, cfg.Name, cfg.Args(file, timeoutS, seed)...)
	var out bytes.Buffer
	cmd.Stdout = &out
	cmd.Stderr = &out
	_ = cmd.Run()
	ms := time.Since(start).Milliseconds()
	text := out.String()
	first := strings.TrimSpace(strings.SplitN(text, "\n", 2)[0])
	st := "unknown"
	switch first {
	case "unsat":
		st = "unsat"
	case "sat":
		st = "sat"
	case "unknown", "timeout":
		st = "unknown"
	default:
		if strings.Contains(text, "error") || strings.Contains(text, "Error") {
			st = "error"
		}
	}
	return solveResult{st, name, text, ms}
}

// discharge races the solvers on one query: the first definite answer wins.
func discharge(file string, order []string, timeoutS int, seed int) solveResult {
	start := time.Now()
	ctx, cancel := context.WithCancel(context.Background())
	defer cancel()
	ch := make(chan solveResult, len(order))
	for _, s := range order {
		go func(s string) { ch <- runSolverCtx(ctx, s, file, timeoutS, seed) }(s)
	}
	var notes []string
	var last solveResult
	for range order {
		r := <-ch
		if r.status == "unsat" || r.status == "sat" {
			r.ms = time.Since(start).Milliseconds()
			return r
		}
		notes = append(notes, r.solver+":"+r.status)
		if r.status == "error" {
			notes = append(notes, firstLines(r.out, 3))
		}
		last = r
	}
	last.ms = time.Since(start).Milliseconds()
	last.status = "unknown"
	last.out = strings.Join(notes, " ") + "\n" + last.out
	return last
}

func firstLines(s string, n int) string {
	lines := strings.Split(s, "\n")
	if len(lines) > n {
		lines = lines[:n]
	}
	return strings.Join(lines, " | ")
}

type solveOpts struct {
	dir      string
	order    []string
	timeoutS int
	seed     int
	jobs     int
	keep     bool
}

func (E *Engine) buildQuery(o *Obligation) string {
	tb := E.tb
	asserts := append([]*Term{}, E.facts[:o.NFacts]...)
	asserts = append(asserts, o.Reach)
	if !o.Cover {
		asserts = append(asserts, tb.Not(o.Goal))
	}
	return tb.Script(asserts, true)
}

func solveAll(E *Engine, obls []*Obligation, opt solveOpts) {
	type job struct {
		o    *Obligation
		file string
	}
	var jobs []job
	for i, o := range obls {
		if o.Result != "" {
			continue
		}
		if !o.Cover && (o.Goal.IsTrue() || o.Reach.IsFalse()) {
			o.Result = "unsat"
			o.Solver = "trivial"
			continue
		}
		q := E.buildQuery(o)
		f := filepath.Join(opt.dir, fmt.Sprintf("q%04d_%s.smt2", i, sanitizeFile(o.Name)))
		if err := os.WriteFile(f, []byte(q), 0o644); err != nil {
			o.Result = "error"
			o.Note = err.Error()
			continue
		}
		o.Query = f
		jobs = append(jobs, job{o, f})
	}
	var wg sync.WaitGroup
	ch := make(chan job)
	n := opt.jobs
	if n <= 0 {
		n = 8
	}
	for w := 0; w < n; w++ {
		wg.Add(1)
		go func() {
			defer wg.Done()
			for j := range ch {
				to := opt.timeoutS
				order := opt.order
				if j.o.Cover {
					// reachability covers: only a refutation matters; keep them cheap
					to = 3
					order = order[:1]
				}
				r := discharge(j.file, order, to, opt.seed)
				j.o.Result = r.status
				j.o.Solver = r.solver
				j.o.WallMs = r.ms
				if r.status == "sat" {
					j.o.Model = r.out
				} else if r.status != "unsat" {
					j.o.Note = firstLines(r.out, 4)
				}
			}
		}()
	}
	for _, j := range jobs {
		ch <- j
	}
	close(ch)
	wg.Wait()
}

func sanitizeFile(s string) string {
	var sb strings.Builder
	for _, r := range s {
		if r >= 'a' && r <= 'z' || r >= 'A' && r <= 'Z' || r >= '0' && r <= '9' || r == '-' || r == '_' || r == '.' {
			sb.WriteRune(r)
		} else {
			sb.WriteByte('_')
		}
	}
	out := sb.String()
	if len(out) > 120 {
		out = out[:120]
	}
	return out
}
