package main

import (
	"bytes"
	"context"
	"fmt"
	"os"
	"os/exec"
	"path/filepath"
	"strings"
	"sync"
	"time"
)

type SolverCfg struct {
	Name string
	Args func(file string, timeoutS int, seed int) []string
}

var solvers = map[string]SolverCfg{
	"z3-new": {"z3-new", func(f string, t int, seed int) []string {
		return []string{fmt.Sprintf("-T:%d", t), fmt.Sprintf("smt.random_seed=%d", seed), f}
	}},
	"z3": {"z3", func(f string, t int, seed int) []string {
		return []string{fmt.Sprintf("-T:%d", t), fmt.Sprintf("smt.random_seed=%d", seed), f}
	}},
	"cvc5": {"cvc5", func(f string, t int, seed int) []string {
		return []string{fmt.Sprintf("--tlimit=%d", t*1000), fmt.Sprintf("--seed=%d", seed), "--produce-models", f}
	}},
}

type solveResult struct {
	status string // unsat | sat | unknown | error
	solver string
	out    string
	ms     int64
}

func runSolverCtx(parent context.Context, name, file string, timeoutS int, seed int) solveResult {
	cfg := solvers[name]
	ctx, cancel := context.WithTimeout(parent, time.Duration(timeoutS+5)*time.Second)
	defer cancel()
	start := time.Now()
	cmd := exec.CommandContext(ctx, cfg.Name, cfg.Args(file, timeoutS, seed)...)
	var out bytes.Buffer
	cmd.Stdout = &out
	cmd.Stderr = &out
	_ = cmd.Run()
	ms := time.Since(start).Milliseconds()
	text := out.String()
	first := strings.TrimSpace(strings.SplitN(text, "\n", 2)[0])
	st := "unknown"
	switch first {
	case "unsat":
		st = "unsat"
	case "sat":
		st = "sat"
	case "unknown", "timeout":
		st = "unknown"
	default:
		if strings.Contains(text, "error") || strings.Contains(text, "Error") {
			st = "error"
		}
	}
	return solveResult{st, name, text, ms}
}

// discharge races the solvers on the full query and, when given, on its cone-of-influence slice:
// "unsat" from any run wins, "sat" counts only on the full query.
func discharge(file string, sliced []string, order []string, timeoutS int, seed int) solveResult {
	start := time.Now()
	ctx, cancel := context.WithCancel(context.Background())
	defer cancel()
	n := len(order) + len(sliced)
	ch := make(chan solveResult, n)
	for _, s := range order {
		go func(s string) { ch <- runSolverCtx(ctx, s, file, timeoutS, seed) }(s)
	}
	for i, sf := range sliced {
		go func(i int, sf string) {
			r := runSolverCtx(ctx, order[0], sf, timeoutS, seed)
			if r.status == "sat" {
				r.status = "unknown" // a model of the slice may violate dropped facts
			}
			r.solver += fmt.Sprintf("/slice%d", i+1)
			ch <- r
		}(i, sf)
	}
	var notes []string
	var last solveResult
	for i := 0; i < n; i++ {
		r := <-ch
		if r.status == "unsat" || r.status == "sat" {
			r.ms = time.Since(start).Milliseconds()
			return r
		}
		notes = append(notes, r.solver+":"+r.status)
		if r.status == "error" {
			notes = append(notes, firstLines(r.out, 3))
		}
		last = r
	}
	last.ms = time.Since(start).Milliseconds()
	last.status = "unknown"
	last.out = strings.Join(notes, " ") + "\n" + last.out
	return last
}

func firstLines(s string, n int) string {
	lines := strings.Split(s, "\n")
	if len(lines) > n {
		lines = lines[:n]
	}
	return strings.Join(lines, " | ")
}

type solveOpts struct {
	dir      string
	order    []string
	timeoutS int
	seed     int
	jobs     int
	keep     bool
	noSlice  bool
}

// buildQuery renders the query of an obligation. With slice=true only the facts in the cone of
// influence of the goal are included (sound for "unsat"; a "sat" must be confirmed on the full query).
func (E *Engine) buildQuery(o *Obligation, slice bool) string {
	return E.buildQueryLevel(o, map[bool]int{false: 0, true: 1}[slice])
}

// level 0: all facts; 1: cone of influence of goal and path condition; 2: cone of influence of the goal only;
// 3: only facts that share a symbol with the goal directly (one round); 4: all quantifier-free facts
// (counterexample search: a model of it is only a candidate and must be confirmed by a replay).
func (E *Engine) buildQueryLevel(o *Obligation, level int) string {
	slice := level > 0 && level < 4
	tb := E.tb
	var asserts []*Term
	facts := E.facts[:o.NFacts]
	if slice && !o.Cover {
		rel := map[string]bool{}
		addSyms := func(t *Term) {
			for s := range tb.Syms(t) {
				if !hubSym(s) {
					rel[s] = true
				}
			}
		}
		addSyms(o.Goal)
		if level == 1 {
			addSyms(o.Reach)
		}
		inc := make([]bool, len(facts))
		rounds := 0
		for changed := true; changed; {
			changed = false
			rounds++
			if level == 3 && rounds > 1 {
				break
			}
			frozen := rel
			if level == 3 {
				frozen = map[string]bool{}
				for k := range rel {
					frozen[k] = true
				}
			}
			for i, f := range facts {
				if inc[i] {
					continue
				}
				hit := false
				for s := range tb.Syms(f.body) {
					if frozen[s] {
						hit = true
						break
					}
				}
				if hit {
					inc[i] = true
					changed = true
					addSyms(f.body)
					if level == 1 {
						addSyms(f.guard)
					}
				}
			}
		}
		for i, f := range facts {
			if inc[i] {
				asserts = append(asserts, tb.Implies(f.guard, f.body))
			}
		}
	} else {
		for _, f := range facts {
			if level == 4 && hasQuant(f.body) {
				continue
			}
			if level == 5 && f.frame {
				continue
			}
			asserts = append(asserts, tb.Implies(f.guard, f.body))
		}
	}
	if level == 4 {
		tb.dropQuantAxioms = true
		defer func() { tb.dropQuantAxioms = false }()
	}
	asserts = append(asserts, o.Reach)
	if !o.Cover {
		asserts = append(asserts, E.negGoal(o.Goal)...)
	}
	return tb.Script(asserts, true)
}

// negGoal negates the goal, replacing outermost universally quantified variables by named Skolem
// constants so that a counterexample model shows the offending values.
func (E *Engine) negGoal(g *Term) []*Term {
	tb := E.tb
	if neg, ok := E.negMemo[g]; ok {
		return neg
	}
	var out []*Term
	switch {
	case g.kind == kQuant && g.op == "forall":
		m := map[*Term]*Term{}
		for _, v := range g.qvars {
			name := v.atom
			if i := strings.Index(name, "?"); i >= 0 {
				name = name[:i]
			}
			m[v] = tb.Fresh("sk$"+name, v.sort)
		}
		out = E.negGoal(tb.Subst(g.args[0], m))
	case g.op == "=>":
		out = append([]*Term{g.args[0]}, E.negGoal(g.args[1])...)
	case g.op == "or":
		for _, d := range g.args {
			out = append(out, E.negGoal(d)...)
		}
	case g.op == "not" && g.args[0].op == "and":
		for _, c := range g.args[0].args {
			if c.op == "not" {
				out = append(out, E.negGoal(c.args[0])...)
			} else {
				out = append(out, c)
			}
		}
	case g.op == "not":
		out = []*Term{g.args[0]}
	default:
		out = []*Term{tb.Not(g)}
	}
	E.negMemo[g] = out
	return out
}

// hubSym: symbols that connect everything and therefore do not count as a relevance link.
func hubSym(s string) bool {
	return s == "null" || s == "unit" || s == "birth" || strings.HasPrefix(s, "in$") || strings.HasPrefix(s, "clock@") || strings.HasPrefix(s, "clock!") ||
		s == "strlen" || strings.HasPrefix(s, "str$")
}

func solveAll(E *Engine, obls []*Obligation, opt solveOpts) {
	type job struct {
		o      *Obligation
		file   string
		sliced []string
	}
	var jobs []job
	for i, o := range obls {
		if o.Result != "" {
			continue
		}
		if !o.Cover && (o.Goal.IsTrue() || o.Reach.IsFalse()) {
			o.Result = "unsat"
			o.Solver = "trivial"
			continue
		}
		f := filepath.Join(opt.dir, fmt.Sprintf("q%04d_%s.smt2", i, sanitizeFile(o.Name)))
		var sf []string
		if !o.Cover && !opt.noSlice {
			for _, lv := range []int{3, 2, 5} {
				name := filepath.Join(opt.dir, fmt.Sprintf("q%04d_%s.slice%d.smt2", i, sanitizeFile(o.Name), lv))
				if err := os.WriteFile(name, []byte(E.buildQueryLevel(o, lv)), 0o644); err == nil {
					sf = append(sf, name)
				}
			}
		}
		if err := os.WriteFile(f, []byte(E.buildQuery(o, false)), 0o644); err != nil {
			o.Result = "error"
			o.Note = err.Error()
			continue
		}
		o.Query = f
		jobs = append(jobs, job{o, f, sf})
	}
	var wg sync.WaitGroup
	ch := make(chan job)
	n := opt.jobs
	if n <= 0 {
		n = 8
	}
	for w := 0; w < n; w++ {
		wg.Add(1)
		go func() {
			defer wg.Done()
			for j := range ch {
				to := opt.timeoutS
				order := opt.order
				if j.o.Cover {
					// reachability covers: only a refutation matters; keep them cheap
					to = 2
					order = order[:1]
				}
				r := discharge(j.file, j.sliced, order, to, opt.seed)
				j.o.Result = r.status
				j.o.Solver = r.solver
				j.o.WallMs = r.ms
				if r.status == "sat" {
					j.o.Model = r.out
				} else if r.status != "unsat" {
					j.o.Note = firstLines(r.out, 4)
				}
			}
		}()
	}
	for _, j := range jobs {
		ch <- j
	}
	close(ch)
	wg.Wait()
}

func sanitizeFile(s string) string {
	var sb strings.Builder
	for _, r := range s {
		if r >= 'a' && r <= 'z' || r >= 'A' && r <= 'Z' || r >= '0' && r <= '9' || r == '-' || r == '_' || r == '.' {
			sb.WriteRune(r)
		} else {
			sb.WriteByte('_')
		}
	}
	out := sb.String()
	if len(out) > 120 {
		out = out[:120]
	}
	return out
}
