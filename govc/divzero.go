package main

import (
	"fmt"
	"go/token"
	"go/types"
	"sort"

	"golang.org/x/tools/go/ssa"
	"golang.org/x/tools/go/ssa/ssautil"
)

// govc divzero -pkgs ... : zero-annotation sweep for crash candidates. Lists every integer division or
// remainder whose divisor is not a constant and is not compared with anything in a block that dominates
// the division. Each hit is a candidate "division by zero panics" (weights, scale factors, lengths).
func cmdDivZero(P *Program) {
	type hit struct{ pos, fn, what string }
	var hits []hit
	for fn := range ssautil.AllFunctions(P.prog) {
		if fn.Blocks == nil || P.IsGhost(fn) || fn.Pkg == nil || !P.isSourcePkg(fn.Pkg.Pkg) || fn.Synthetic != "" {
			continue
		}
		for _, b := range fn.Blocks {
			for _, in := range b.Instrs {
				bo, ok := in.(*ssa.BinOp)
				if !ok || (bo.Op != token.QUO && bo.Op != token.REM) {
					continue
				}
				bt, ok := bo.Y.Type().Underlying().(*types.Basic)
				if !ok || bt.Info()&types.IsInteger == 0 {
					continue
				}
				if _, isConst := bo.Y.(*ssa.Const); isConst {
					continue
				}
				// the divisor, looking through conversions
				roots := []ssa.Value{bo.Y}
				for v := bo.Y; ; {
					if cv, ok := v.(*ssa.Convert); ok {
						v = cv.X
						roots = append(roots, v)
						continue
					}
					if ct, ok := v.(*ssa.ChangeType); ok {
						v = ct.X
						roots = append(roots, v)
						continue
					}
					break
				}
				guarded := false
				for _, r := range roots {
					if r.Referrers() == nil {
						continue
					}
					for _, u := range *r.Referrers() {
						cmp, ok := u.(*ssa.BinOp)
						if !ok {
							continue
						}
						switch cmp.Op {
						case token.EQL, token.NEQ, token.LSS, token.LEQ, token.GTR, token.GEQ:
							if cmp.Block() == b || cmp.Block().Dominates(b) {
								guarded = true
							}
						}
					}
					// a maximum with a positive constant, or a length of something just appended to, is not looked for
				}
				if !guarded {
					hits = append(hits, hit{P.Pos(in.Pos()), shortFn(fn), fmt.Sprintf("%s by %s without a dominating test of the divisor", bo.Op, bo.Y.Name())})
				}
			}
		}
	}
	sort.Slice(hits, func(i, j int) bool { return hits[i].pos < hits[j].pos })
	for _, h := range hits {
		fmt.Printf("%s\t%s\t%s\n", h.pos, h.fn, h.what)
	}
	fmt.Printf("%d candidate(s)\n", len(hits))
}
