package main

import (
	"fmt"
	"go/token"
	"go/types"
	"os"
	"strings"

	"golang.org/x/tools/go/ssa"
)

// ---------------------------------------------------------------------------------------------
// Write sets (syntactic frame): which heap arrays may a piece of code store to, and through which
// base references. Used to havoc at loop heads and at contract uses; everything not written is
// framed ("unchanged") automatically.
// ---------------------------------------------------------------------------------------------

type keyWrite struct {
	any   bool               // written at an unknown reference
	fresh bool               // written at references allocated by the code itself
	bases map[ssa.Value]bool // written at these (caller-visible) SSA values
	deep  map[ssa.Value]bool // written at sub-objects of these values (nested struct fields)
}

type writeSet struct {
	all  bool
	keys map[string]*keyWrite
}

func newWriteSet() *writeSet { return &writeSet{keys: map[string]*keyWrite{}} }

func (w *writeSet) key(k string) *keyWrite {
	kw := w.keys[k]
	if kw == nil {
		kw = &keyWrite{bases: map[ssa.Value]bool{}}
		w.keys[k] = kw
	}
	return kw
}

// baseRef evaluates a base SSA value to the reference whose slot is written.
func (E *Engine) baseRef(fr *Frame, v ssa.Value) (*Term, bool) {
	x, ok := fr.env[v]
	if !ok {
		switch v.(type) {
		case *ssa.Global, *ssa.Const:
			x = E.value(fr, v)
		default:
			return nil, false
		}
	}
	switch t := x.(type) {
	case *Term:
		switch t.sort {
		case SRef:
			return t, true
		case SSlc:
			return E.slcArr(t), true
		}
	case *Addr:
		return t.ref, true
	}
	return nil, false
}

// havocKeys replaces the written heap arrays by fresh ones. resolve maps a base SSA value to its
// reference in the current context (or reports that it cannot).
func (E *Engine) havocKeys(st *State, ws *writeSet, resolve func(ssa.Value) (*Term, bool)) {
	if os.Getenv("GOVC_DEBUG_WRITES") != "" {
		var ks []string
		for k, kw := range ws.keys {
			ks = append(ks, fmt.Sprintf("%s(any=%v fresh=%v bases=%d)", k, kw.any, kw.fresh, len(kw.bases)))
		}
		sortStrings(ks)
		fmt.Fprintf(os.Stderr, "havoc all=%v keys=%v\n", ws.all, ks)
	}
	if ws.all {
		E.havocAll(st)
		return
	}
	tb := E.tb
	clockPre := E.clock(st)
	var ks []string
	for k := range ws.keys {
		ks = append(ks, k)
	}
	sortStrings(ks)
	// the clock first, so that the closedness of the new arrays refers to the new time
	if _, ok := ws.keys[allocKey]; ok {
		nw := tb.Fresh(allocKey, SInt)
		E.addFact(st, tb.Cmp("<=", clockPre, nw))
		tb.noSyms[nw] = true
		st.heap[allocKey] = nw
	}
	clockPost := E.clock(st)
	preserve := map[string]bool{}
	oldState := st.clone()
	defer func() {
		if len(preserve) > 0 {
			E.preserveUnescaped(st, oldState, preserve)
		}
	}()
	for _, k := range ks {
		srt, ok := E.heapSorts[k]
		if !ok {
			continue
		}
		if k == allocKey {
			continue
		}
		kw := ws.keys[k]
		old := E.get(st, k, srt)
		nw := tb.Fresh(k, srt)
		st.heap[k] = nw
		if c := E.closed(nw, clockPost); c != nil {
			E.addFact(st, c)
		}
		if kw.any || !srt.IsArray() {
			if kw.any {
				preserve[k] = true
			}
			continue
		}
		if ks0, _ := srt.ArrayParts(); ks0 != SRef {
			continue
		}
		var bases []*Term
		okAll := true
		for b := range kw.bases {
			t, ok := resolve(b)
			if !ok {
				okAll = false
				break
			}
			bases = append(bases, t)
		}
		if !okAll {
			continue
		}
		r := tb.BVar("r", SRef)
		var conds []*Term
		if kw.fresh {
			conds = append(conds, tb.Cmp("<=", E.birth(r), clockPre))
		}
		seen := map[*Term]bool{}
		for _, b := range bases {
			if !seen[b] {
				seen[b] = true
				conds = append(conds, tb.Not(tb.Eq(r, b)))
			}
		}
		if kw.fresh && len(bases) == 0 {
			E.addFrameFact(st, tb.Forall([]*Term{r}, tb.Implies(tb.And(conds...), tb.Eq(tb.Select(nw, r), tb.Select(old, r)))))
		} else {
			E.addFact(st, tb.Forall([]*Term{r}, tb.Implies(tb.And(conds...), tb.Eq(tb.Select(nw, r), tb.Select(old, r)))))
		}
	}
}

func (E *Engine) writes(fn *ssa.Function, tenv TEnv) *writeSet {
	key := fn.String() + "|" + tenv.key()
	if w, ok := E.writeMemo[key]; ok {
		return w
	}
	w := newWriteSet()
	E.writeMemo[key] = w // cycles: partial result
	for _, b := range fn.Blocks {
		for _, in := range b.Instrs {
			E.instrWrites(fn, in, tenv, w)
		}
	}
	E.classify(w, func(ssa.Instruction) bool { return true })
	return w
}

func (E *Engine) loopWrites(fr *Frame, lp *loop) *writeSet {
	w := newWriteSet()
	for b := range lp.blocks {
		for _, in := range b.Instrs {
			E.instrWrites(fr.fn, in, fr.tenv, w)
		}
	}
	E.classify(w, func(in ssa.Instruction) bool { return in.Block() != nil && lp.blocks[in.Block()] })
	return w
}

// classify rewrites the bases of a write set in terms of values visible on entry to the region:
// a base allocated inside the region is "fresh", a base that can only be one of several entry
// values is replaced by them, anything else makes the key written at an unknown reference.
func (E *Engine) classify(w *writeSet, inRegion func(ssa.Instruction) bool) {
	for _, kw := range w.keys {
		nb := map[ssa.Value]bool{}
		for b := range kw.bases {
			o := E.valueOrigin(b, inRegion, map[ssa.Value]bool{})
			if o.unknown {
				kw.any = true
			}
			if o.fresh {
				kw.fresh = true
			}
			for v := range o.vals {
				nb[v] = true
			}
		}
		kw.bases = nb
		for b := range kw.deep {
			o := E.valueOrigin(b, inRegion, map[ssa.Value]bool{})
			if o.unknown || len(o.vals) > 0 {
				kw.any = true // a sub-object of something that existed before
			}
			if o.fresh {
				kw.fresh = true
			}
		}
		kw.deep = nil
	}
}

func (E *Engine) regKey(w *writeSet, k string, s Sort) *keyWrite {
	if _, ok := E.heapSorts[k]; !ok {
		E.heapSorts[k] = s
	}
	return w.key(k)
}

func (E *Engine) regObjKeys(w *writeSet, t types.Type, tenv TEnv, base ssa.Value) {
	ks := map[string]bool{}
	E.objKeys(t, tenv, ks)
	for k := range ks {
		kw := w.key(k)
		// nested struct fields live at derived (sub) references: treat as unknown unless top-level
		if base == nil {
			kw.any = true
		} else {
			kw.bases[base] = true
		}
	}
}

// regObjKeysDeep: the object at root (and its nested sub-objects) is written. Which references that
// touches is decided by classify: nothing that existed before if root was allocated inside the region.
func (E *Engine) regObjKeysDeep(w *writeSet, t types.Type, tenv TEnv, root ssa.Value) {
	ks := map[string]bool{}
	E.objKeys(t, tenv, ks)
	for k := range ks {
		kw := w.key(k)
		if kw.deep == nil {
			kw.deep = map[ssa.Value]bool{}
		}
		kw.deep[root] = true
	}
}

func hasNestedStruct(E *Engine, t types.Type, tenv TEnv) bool {
	si := E.structInfoOf(t, tenv)
	if si == nil {
		return false
	}
	for _, ft := range si.ftypes {
		if isStruct(ft) && E.structInfoOf(ft, tenv).sort != SUnit {
			return true
		}
	}
	return false
}

func (E *Engine) addrWrites(v ssa.Value, tenv TEnv, w *writeSet) {
	switch a := v.(type) {
	case *ssa.IndexAddr:
		xt := types.Unalias(E.subst(a.X.Type(), tenv)).Underlying()
		var el types.Type
		switch tt := xt.(type) {
		case *types.Slice:
			el = tt.Elem()
		case *types.Pointer:
			el = types.Unalias(tt.Elem()).Underlying().(*types.Array).Elem()
		}
		k, ks := E.arrKey(el, tenv)
		E.regKey(w, k, ks).bases[a.X] = true
		return
	case *ssa.FieldAddr:
		// a field of a slice element is stored inside the slice's backing array
		root := a.X
		depth := 0
		for {
			if fa, ok := root.(*ssa.FieldAddr); ok {
				root = fa.X
				depth++
				continue
			}
			break
		}
		if ia, ok := root.(*ssa.IndexAddr); ok {
			E.addrWrites(ia, tenv, w)
			return
		}
		pt := types.Unalias(E.subst(a.X.Type(), tenv)).Underlying().(*types.Pointer)
		si := E.structInfoOf(pt.Elem(), tenv)
		ft := si.ftypes[a.Field]
		if isStruct(ft) {
			E.regObjKeysDeep(w, ft, tenv, root)
		} else {
			k, ks := E.fieldKey(si, a.Field)
			kw := E.regKey(w, k, ks)
			if depth == 0 {
				kw.bases[a.X] = true
			} else {
				// field of an embedded struct: written at a derived reference
				if kw.deep == nil {
					kw.deep = map[ssa.Value]bool{}
				}
				kw.deep[root] = true
			}
		}
		// the base may be an interior pointer into a slice of structs
		if _, isAlloc := root.(*ssa.Alloc); !isAlloc && si.sort != SUnit {
			if _, isParam := root.(*ssa.Parameter); isParam {
				k, ks := E.arrKey(pt.Elem(), tenv)
				E.regKey(w, k, ks).any = true
			}
		}
		return
	}
	pt, ok := types.Unalias(E.subst(v.Type(), tenv)).Underlying().(*types.Pointer)
	if !ok {
		w.all = true
		return
	}
	if hasNestedStruct(E, pt.Elem(), tenv) {
		E.regObjKeysDeep(w, pt.Elem(), tenv, v)
		return
	}
	E.regObjKeys(w, pt.Elem(), tenv, v)
}

func (E *Engine) instrWrites(fn *ssa.Function, in ssa.Instruction, tenv TEnv, w *writeSet) {
	if E.logVarargs(fn)[in] {
		return
	}
	switch t := in.(type) {
	case *ssa.Store:
		E.addrWrites(t.Addr, tenv, w)
	case *ssa.MapUpdate:
		mt := E.mapType(t.Map.Type(), tenv)
		vs := E.sortOf(mt.Elem(), tenv)
		k, s := E.mdomKey(mt, tenv)
		E.regKey(w, k, s).bases[t.Map] = true
		if vs != SUnit {
			k, s = E.mvalKey(mt, tenv)
			E.regKey(w, k, s).bases[t.Map] = true
		}
	case *ssa.Alloc:
		w.key(allocKey).any = true
		el := t.Type().(*types.Pointer).Elem()
		if hasNestedStruct(E, el, tenv) {
			// the new object and its sub-objects are born now: nothing that existed before is written
			ks := map[string]bool{}
			E.objKeys(el, tenv, ks)
			for k := range ks {
				w.key(k).fresh = true
			}
		} else {
			E.regObjKeys(w, el, tenv, t)
		}
	case *ssa.MakeMap:
		w.key(allocKey).any = true
		mt := E.mapType(t.Type(), tenv)
		k, s := E.mdomKey(mt, tenv)
		E.regKey(w, k, s).bases[t] = true
	case *ssa.MakeSlice:
		w.key(allocKey).any = true
		stp := types.Unalias(E.subst(t.Type(), tenv)).Underlying().(*types.Slice)
		k, s := E.arrKey(stp.Elem(), tenv)
		E.regKey(w, k, s).bases[t] = true
	case *ssa.MakeChan, *ssa.MakeClosure:
		w.key(allocKey).any = true
	case *ssa.Call:
		E.callWrites(fn, &t.Call, t, tenv, w)
	case *ssa.Defer:
		E.callWrites(fn, &t.Call, t, tenv, w)
	case *ssa.Go:
		w.all = true
	case *ssa.Send, *ssa.Select:
		w.all = true
	}
}

func (E *Engine) callWrites(fn *ssa.Function, cc *ssa.CallCommon, site ssa.Instruction, tenv TEnv, w *writeSet) {
	if cc.IsInvoke() {
		if noEffectMethods[cc.Method.Name()] && isSyncLocker(cc.Value.Type()) {
			return
		}
		full := cc.Value.Type().String() + "." + cc.Method.Name()
		if E.isNoEffect(full, cc.Method.Pkg()) || E.P.pureMethods[full] || E.P.pureMethods[normIface(full)] {
			return
		}
		if h := E.ifaceContract(cc); h != nil {
			for _, k := range h.Writes {
				w.key(k).any = true
			}
			return
		}
		w.all = true
		return
	}
	switch v := cc.Value.(type) {
	case *ssa.Builtin:
		switch v.Name() {
		case "append":
			w.key(allocKey).any = true
			stp := types.Unalias(E.subst(cc.Args[0].Type(), tenv)).Underlying().(*types.Slice)
			k, s := E.arrKey(stp.Elem(), tenv)
			kw := E.regKey(w, k, s)
			kw.bases[cc.Args[0]] = true
			kw.fresh = true
		case "copy":
			if stp, ok := types.Unalias(E.subst(cc.Args[0].Type(), tenv)).Underlying().(*types.Slice); ok {
				k, s := E.arrKey(stp.Elem(), tenv)
				E.regKey(w, k, s).bases[cc.Args[0]] = true
			}
		case "delete", "clear":
			if mt, ok := types.Unalias(E.subst(cc.Args[0].Type(), tenv)).Underlying().(*types.Map); ok {
				k, s := E.mdomKey(mt, tenv)
				E.regKey(w, k, s).bases[cc.Args[0]] = true
			} else if stp, ok := types.Unalias(E.subst(cc.Args[0].Type(), tenv)).Underlying().(*types.Slice); ok {
				k, s := E.arrKey(stp.Elem(), tenv)
				E.regKey(w, k, s).bases[cc.Args[0]] = true
			} else {
				w.all = true
			}
		}
		return
	case *ssa.Function:
		E.fnWrites(v, cc.Args, nil, tenv, w)
		return
	case *ssa.MakeClosure:
		E.fnWrites(v.Fn.(*ssa.Function), cc.Args, v.Bindings, tenv, w)
		return
	case *ssa.UnOp:
		if v.Op == token.MUL {
			if fa, ok := v.X.(*ssa.FieldAddr); ok {
				if name := fieldPath(fa); name != "" && E.P.pureMethods["callback:"+name] {
					return
				}
			}
		}
	case *ssa.Phi:
		// a function-typed variable assigned statically known functions in the branches of an if
		ok := true
		for _, e := range v.Edges {
			switch e.(type) {
			case *ssa.Function, *ssa.MakeClosure:
			default:
				ok = false
			}
		}
		if ok {
			for _, e := range v.Edges {
				switch f := e.(type) {
				case *ssa.Function:
					E.fnWrites(f, cc.Args, nil, tenv, w)
				case *ssa.MakeClosure:
					E.fnWrites(f.Fn.(*ssa.Function), cc.Args, f.Bindings, tenv, w)
				}
			}
			return
		}
	case *ssa.Parameter:
		// a function-typed parameter of the target of a //verif:pure-func-params contract
		if h := E.P.contracts[originOf(fn)]; h != nil && h.PureFuncParams {
			return
		}
	}
	if E.pureFuncParam(fn, cc.Value) {
		// the same parameter, captured by a function literal of the target (a cell in SSA)
		return
	}
	w.all = true
}

// fnWrites adds the callee's write set, translating parameter bases to the actual arguments.
func (E *Engine) fnWrites(fn *ssa.Function, actuals []ssa.Value, bindings []ssa.Value, tenv TEnv, w *writeSet) {
	org := originOf(fn)
	name := org.String()
	if strings.HasPrefix(name, verifPkg) {
		return
	}
	if E.modelled(name) {
		return
	}
	if name == "(*sync.Cond).Wait" {
		if !E.harness.NonBlocking {
			w.all = true
		}
		return
	}
	body, env := E.calleeBody(fn, tenv)
	if len(body.Blocks) == 0 {
		var pkg *types.Package
		if fn.Pkg != nil {
			pkg = fn.Pkg.Pkg
		} else if fn.Object() != nil {
			pkg = fn.Object().Pkg()
		} else if o := fn.Origin(); o != nil && o.Object() != nil {
			pkg = o.Object().Pkg()
		}
		if pkg != nil && stdMutatesSlice(pkg.Path(), fn) {
			if len(actuals) > 0 {
				if stp := sliceCore(E.subst(actuals[0].Type(), tenv)); stp != nil {
					k, srt := E.arrKey(stp.Elem(), tenv)
					E.regKey(w, k, srt).any = true
					return
				}
			}
			w.all = true
			return
		}
		if pkg != nil && pkg.Path() == "maps" {
			switch originOf(fn).Name() {
			case "Copy", "DeleteFunc", "Insert":
				w.all = true
				return
			}
		}
		if E.isNoEffect(name, pkg) {
			return
		}
		if isGetter(fn) || isStringer(fn) {
			return
		}
		if h := E.P.contracts[org]; h != nil {
			return // external with a (trusted) contract: writes nothing unless the contract says so
		}
		if E.P.pureFns[org] {
			return
		}
		w.all = true
		return
	}
	if h := E.P.contracts[org]; h != nil && h.WritesNothing {
		return
	}
	if E.P.pureFns[org] {
		return
	}
	cw := E.writes(body, env)
	if cw.all {
		w.all = true
	}
	for k, ckw := range cw.keys {
		kw := w.key(k)
		if ckw.any {
			kw.any = true
		}
		if ckw.fresh {
			kw.fresh = true
		}
		for b := range ckw.bases {
			switch bb := b.(type) {
			case *ssa.Parameter:
				idx := -1
				for i, p := range body.Params {
					if p == bb {
						idx = i
					}
				}
				if idx >= 0 && idx < len(actuals) {
					kw.bases[actuals[idx]] = true
				} else {
					kw.any = true
				}
			case *ssa.Global:
				kw.bases[bb] = true
			case *ssa.FreeVar:
				// a captured variable: the cell the closure was bound to at the call site
				idx := -1
				for i, fv := range body.FreeVars {
					if fv == bb {
						idx = i
					}
				}
				if idx >= 0 && idx < len(bindings) {
					kw.bases[bindings[idx]] = true
				} else {
					kw.any = true
				}
			default:
				kw.any = true
			}
		}
	}
}

func isStringer(fn *ssa.Function) bool {
	n := fn.Name()
	return (n == "String" || n == "Error" || n == "GoString") && fn.Signature.Recv() != nil && fn.Signature.Params().Len() == 0 && fn.Signature.Results().Len() == 1
}

func isGetter(fn *ssa.Function) bool {
	return strings.HasPrefix(fn.Name(), "Get") && fn.Signature.Recv() != nil && fn.Signature.Results().Len() == 1
}

// pureFuncParam: v is (a load of the captured cell of) a function-typed parameter of a function whose
// contract declares its function parameters pure.
func (E *Engine) pureFuncParam(fn *ssa.Function, v ssa.Value) bool {
	name := ""
	switch t := v.(type) {
	case *ssa.FreeVar:
		name = t.Name()
	case *ssa.UnOp:
		if t.Op != token.MUL {
			return false
		}
		switch x := t.X.(type) {
		case *ssa.Alloc:
			name = x.Comment
		case *ssa.FreeVar:
			name = x.Name()
		}
	}
	if name == "" {
		return false
	}
	for f := fn; f != nil; f = f.Parent() {
		if h := E.P.contracts[originOf(f)]; h != nil && h.PureFuncParams {
			for _, q := range f.Params {
				if q.Name() == name {
					if _, isFn := q.Type().Underlying().(*types.Signature); isFn {
						return true
					}
				}
			}
		}
	}
	return false
}
