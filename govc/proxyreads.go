package main

import (
	"fmt"
	"go/types"
	"sort"
	"strings"

	"golang.org/x/tools/go/ssa"
)

// proxyReads: the accessors of a value of the named type (methods called on it, fields read from it) used
// by root and by everything root reaches through static calls inside root's own package.
func proxyReads(P *Program, root *ssa.Function, typeName string) map[string]bool {
	out := map[string]bool{}
	seen := map[*ssa.Function]bool{}
	isT := func(t types.Type) bool {
		t = types.Unalias(t)
		if p, ok := t.(*types.Pointer); ok {
			t = types.Unalias(p.Elem())
		}
		n, ok := t.(*types.Named)
		return ok && n.Obj().Pkg() != nil && n.Obj().Pkg().Path()+"."+n.Obj().Name() == typeName
	}
	var walk func(f *ssa.Function)
	walk = func(f *ssa.Function) {
		if f == nil || seen[f] || f.Blocks == nil {
			return
		}
		seen[f] = true
		for _, b := range f.Blocks {
			for _, in := range b.Instrs {
				switch t := in.(type) {
				case *ssa.FieldAddr:
					if isT(t.X.Type()) {
						if pt, ok := types.Unalias(t.X.Type()).Underlying().(*types.Pointer); ok {
							if st, ok := pt.Elem().Underlying().(*types.Struct); ok {
								out["."+st.Field(t.Field).Name()] = true
							}
						}
					}
				case ssa.CallInstruction:
					c := t.Common()
					if callee := c.StaticCallee(); callee != nil {
						if callee.Signature.Recv() != nil && isT(callee.Signature.Recv().Type()) {
							out[callee.Name()+"()"] = true
							continue
						}
						if callee.Pkg != nil && root.Pkg != nil && callee.Pkg == root.Pkg {
							walk(callee)
						}
						for _, a := range c.Args {
							if mc, ok := a.(*ssa.MakeClosure); ok {
								walk(mc.Fn.(*ssa.Function))
							}
						}
					}
				}
			}
		}
		for _, a := range f.AnonFuncs {
			walk(a)
		}
	}
	walk(root)
	return out
}

// govc keyreads <builder function> <key function> <type> : accessors of <type> used while building that the
// cache key function does not use. A zero-annotation sweep for C06 (cache-key completeness): candidates only.
func cmdKeyReads(P *Program, build, key, typeName string) []string {
	bf, err := P.FindFunc(nil, build)
	if err != nil {
		fmt.Println("ERROR:", err)
		return nil
	}
	kf, err := P.FindFunc(nil, key)
	if err != nil {
		fmt.Println("ERROR:", err)
		return nil
	}
	br, kr := proxyReads(P, bf, typeName), proxyReads(P, kf, typeName)
	var miss []string
	for a := range br {
		if !kr[a] {
			miss = append(miss, a)
		}
	}
	sort.Strings(miss)
	var ks []string
	for a := range kr {
		ks = append(ks, a)
	}
	sort.Strings(ks)
	fmt.Printf("key function %s uses: %s\n", shortFn(kf), strings.Join(ks, " "))
	fmt.Printf("used by %s (and what it calls in its package) but not by the key: %s\n", shortFn(bf), strings.Join(miss, " "))
	return miss
}

// KeyReads is a read-set obligation (back end frame): every accessor of a value of Type that Build (and what
// it calls inside its package) uses is also used by Key, the function that writes the cache key - except the
// listed ones, each with the reason why it cannot make two cached results differ.
type KeyReads struct {
	Property string            `json:"property"`
	Name     string            `json:"name"`
	Build    string            `json:"build"`
	Key      string            `json:"key"`
	Type     string            `json:"type"`
	Covered  map[string]string `json:"covered_elsewhere"` // accessor -> how the key covers it
	What     string            `json:"what"`
}

func runKeyReads(P *Program, kr KeyReads) (bool, string) {
	bf, err := P.FindFunc(nil, kr.Build)
	if err != nil {
		return false, "contract-target-missing: " + err.Error()
	}
	kf, err := P.FindFunc(nil, kr.Key)
	if err != nil {
		return false, "contract-target-missing: " + err.Error()
	}
	br, krd := proxyReads(P, bf, kr.Type), proxyReads(P, kf, kr.Type)
	if len(br) == 0 || len(krd) == 0 {
		return false, "contract-target-missing: no accessor of " + kr.Type + " found in the builder or in the key function"
	}
	var miss []string
	for a := range br {
		if !krd[a] {
			if _, ok := kr.Covered[a]; !ok {
				miss = append(miss, a)
			}
		}
	}
	sort.Strings(miss)
	if len(miss) > 0 {
		return false, "used while building but not by the key function: " + strings.Join(miss, " ")
	}
	return true, ""
}
