package main

import (
	"fmt"
	"go/types"
	"strings"
)

// TEnv maps type parameters to concrete types while a generic body is executed for an
// instantiated caller. A nil/empty TEnv leaves type parameters as uninterpreted sorts (named after
// the parameter, so that a generic contract and its generic target agree).
type TEnv map[*types.TypeParam]types.Type

func (e TEnv) key() string {
	if len(e) == 0 {
		return ""
	}
	var parts []string
	for k, v := range e {
		parts = append(parts, k.Obj().Name()+"="+v.String())
	}
	sortStrings(parts)
	return strings.Join(parts, ",")
}

// subst substitutes type parameters deeply.
func (E *Engine) subst(t types.Type, env TEnv) types.Type {
	if len(env) == 0 || t == nil {
		return t
	}
	switch tt := t.(type) {
	case *types.TypeParam:
		if c, ok := env[tt]; ok {
			return c
		}
		return t
	case *types.Alias:
		return E.subst(types.Unalias(tt), env)
	case *types.Pointer:
		e := E.subst(tt.Elem(), env)
		if e == tt.Elem() {
			return t
		}
		return types.NewPointer(e)
	case *types.Slice:
		e := E.subst(tt.Elem(), env)
		if e == tt.Elem() {
			return t
		}
		return types.NewSlice(e)
	case *types.Array:
		e := E.subst(tt.Elem(), env)
		if e == tt.Elem() {
			return t
		}
		return types.NewArray(e, tt.Len())
	case *types.Map:
		k, v := E.subst(tt.Key(), env), E.subst(tt.Elem(), env)
		if k == tt.Key() && v == tt.Elem() {
			return t
		}
		return types.NewMap(k, v)
	case *types.Chan:
		e := E.subst(tt.Elem(), env)
		if e == tt.Elem() {
			return t
		}
		return types.NewChan(tt.Dir(), e)
	case *types.Tuple:
		changed := false
		vars := make([]*types.Var, tt.Len())
		for i := 0; i < tt.Len(); i++ {
			v := tt.At(i)
			nt := E.subst(v.Type(), env)
			if nt != v.Type() {
				changed = true
				v = types.NewVar(v.Pos(), v.Pkg(), v.Name(), nt)
			}
			vars[i] = v
		}
		if !changed {
			return t
		}
		return types.NewTuple(vars...)
	case *types.Signature:
		p := E.subst(tt.Params(), env).(*types.Tuple)
		r := E.subst(tt.Results(), env).(*types.Tuple)
		if p == tt.Params() && r == tt.Results() {
			return t
		}
		return types.NewSignatureType(nil, nil, nil, p, r, tt.Variadic())
	case *types.Struct:
		changed := false
		fs := make([]*types.Var, tt.NumFields())
		tags := make([]string, tt.NumFields())
		for i := 0; i < tt.NumFields(); i++ {
			f := tt.Field(i)
			nt := E.subst(f.Type(), env)
			if nt != f.Type() {
				changed = true
				f = types.NewField(f.Pos(), f.Pkg(), f.Name(), nt, f.Embedded())
			}
			fs[i] = f
			tags[i] = tt.Tag(i)
		}
		if !changed {
			return t
		}
		return types.NewStruct(fs, tags)
	case *types.Named:
		ta := tt.TypeArgs()
		if ta == nil || ta.Len() == 0 {
			return t
		}
		changed := false
		args := make([]types.Type, ta.Len())
		for i := 0; i < ta.Len(); i++ {
			args[i] = E.subst(ta.At(i), env)
			if args[i] != ta.At(i) {
				changed = true
			}
		}
		if !changed {
			return t
		}
		inst, err := types.Instantiate(nil, tt.Origin(), args, false)
		if err != nil {
			return t
		}
		return inst
	}
	return t
}

func typeName(t types.Type) string {
	s := types.TypeString(t, func(p *types.Package) string { return p.Path() })
	s = strings.ReplaceAll(s, "istio.io/istio/", "")
	return sanitize(s)
}

// sortOf maps a Go type to its SMT sort.
func (E *Engine) sortOf(t types.Type, env TEnv) Sort {
	t = E.subst(t, env)
	switch tt := t.(type) {
	case *types.TypeParam:
		s := Sort("TP$" + tt.Obj().Name())
		E.tb.DeclSort(s)
		return s
	case *types.Alias:
		return E.sortOf(types.Unalias(tt), env)
	case *types.Named:
		if st, ok := tt.Underlying().(*types.Struct); ok {
			return E.structSort(tt, st, env)
		}
		return E.sortOf(tt.Underlying(), env)
	case *types.Basic:
		info := tt.Info()
		switch {
		case info&types.IsBoolean != 0:
			return SBool
		case info&types.IsInteger != 0:
			return SInt
		case info&types.IsFloat != 0:
			return SReal
		case info&types.IsString != 0:
			return E.strSort()
		case tt.Kind() == types.UnsafePointer:
			return SRef
		case tt.Kind() == types.UntypedNil:
			return SRef
		}
		return SRef
	case *types.Pointer, *types.Map, *types.Chan, *types.Signature:
		return SRef
	case *types.Slice:
		return SSlc
	case *types.Interface:
		return SIfc
	case *types.Struct:
		return E.structSort(nil, tt, env)
	case *types.Array:
		return ArraySort(SInt, E.sortOf(tt.Elem(), env))
	case *types.Tuple:
		return SUnit
	}
	panic(fmt.Sprintf("sortOf: unsupported type %T %s", t, t))
}

func (E *Engine) strSort() Sort {
	if E.tb.useStrings {
		return "String"
	}
	E.tb.DeclSort("Str")
	return "Str"
}

type structInfo struct {
	name   string // heap/sort base name
	sort   Sort
	ctor   string
	st     *types.Struct
	fields []dtField
	ftypes []types.Type
}

func (E *Engine) structName(named *types.Named, st *types.Struct, env TEnv) string {
	if named != nil {
		return typeName(named)
	}
	k := types.TypeString(st, nil)
	if n, ok := E.anonStructs[k]; ok {
		return n
	}
	n := fmt.Sprintf("anon%d", len(E.anonStructs)+1)
	E.anonStructs[k] = n
	return n
}

func (E *Engine) structInfoOf(t types.Type, env TEnv) *structInfo {
	t = E.subst(t, env)
	t = types.Unalias(t)
	var named *types.Named
	var st *types.Struct
	switch tt := t.(type) {
	case *types.Named:
		named = tt
		s, ok := tt.Underlying().(*types.Struct)
		if !ok {
			return nil
		}
		st = s
	case *types.Struct:
		st = tt
	default:
		return nil
	}
	name := E.structName(named, st, env)
	if si, ok := E.structs[name]; ok {
		return si
	}
	si := &structInfo{name: name, st: st}
	E.structs[name] = si
	if st.NumFields() == 0 {
		si.sort = SUnit
		return si
	}
	si.sort = Sort("S$" + name)
	si.ctor = "mk$" + name
	for i := 0; i < st.NumFields(); i++ {
		f := st.Field(i)
		ft := E.subst(f.Type(), env)
		si.ftypes = append(si.ftypes, ft)
		si.fields = append(si.fields, dtField{name: "f$" + name + "." + f.Name(), sort: E.sortOf(ft, env)})
	}
	E.tb.DeclDatatype(si.sort, si.ctor, si.fields)
	return si
}

func (E *Engine) structSort(named *types.Named, st *types.Struct, env TEnv) Sort {
	if st.NumFields() == 0 {
		return SUnit
	}
	var t types.Type = st
	if named != nil {
		t = named
	}
	return E.structInfoOf(t, env).sort
}

func isStruct(t types.Type) bool {
	_, ok := types.Unalias(t).Underlying().(*types.Struct)
	return ok
}

// zero value of a Go type.
func (E *Engine) zero(t types.Type, env TEnv) *Term {
	t = E.subst(t, env)
	tb := E.tb
	s := E.sortOf(t, env)
	switch s {
	case SBool:
		return tb.False()
	case SInt:
		return tb.Int(0)
	case SReal:
		return tb.Real("0.0")
	case SRef:
		return E.null()
	case SUnit:
		return E.unit()
	case SSlc:
		return E.nilSlice()
	case SIfc:
		return E.nilIface()
	}
	if s == E.strSort() {
		return E.strLit("")
	}
	if strings.HasPrefix(string(s), "TP$") {
		return tb.Const("zero$"+string(s), s)
	}
	if s.IsArray() {
		arr := types.Unalias(t).Underlying().(*types.Array)
		return tb.ConstArray(s, E.zero(arr.Elem(), env))
	}
	if si := E.structInfoOf(t, env); si != nil {
		args := make([]*Term, len(si.fields))
		for i := range si.fields {
			args[i] = E.zero(si.ftypes[i], env)
		}
		return tb.App(si.ctor, si.sort, args...)
	}
	panic("zero: unsupported " + t.String())
}

func (E *Engine) null() *Term { return E.tb.Const("null", SRef) }
func (E *Engine) unit() *Term { return E.tb.Const("unit", SUnit) }

func (E *Engine) nilSlice() *Term {
	return E.tb.App("mkslice", SSlc, E.null(), E.tb.Int(0), E.tb.Int(0), E.tb.Int(0))
}
func (E *Engine) nilIface() *Term {
	return E.tb.App("mkiface", SIfc, E.tb.Int(0), E.null())
}

func (E *Engine) mkSlice(arr, off, ln, cp *Term) *Term {
	return E.tb.App("mkslice", SSlc, arr, off, ln, cp)
}

func (E *Engine) slcArr(s *Term) *Term { return E.proj("s_arr", SRef, s, 0) }
func (E *Engine) slcOff(s *Term) *Term { return E.proj("s_off", SInt, s, 1) }
func (E *Engine) slcLen(s *Term) *Term { return E.proj("s_len", SInt, s, 2) }
func (E *Engine) slcCap(s *Term) *Term { return E.proj("s_cap", SInt, s, 3) }
func (E *Engine) ifcTag(s *Term) *Term { return E.proj("i_tag", SInt, s, 0) }
func (E *Engine) ifcVal(s *Term) *Term { return E.proj("i_val", SRef, s, 1) }

// proj applies a datatype accessor, folding it over a visible constructor or ite.
func (E *Engine) proj(acc string, s Sort, t *Term, idx int) *Term {
	if t.op == "mkslice" || t.op == "mkiface" || strings.HasPrefix(t.op, "mk$") {
		return t.args[idx]
	}
	if t.op == "ite" && t.size < 200 {
		return E.tb.Ite(t.args[0], E.proj(acc, s, t.args[1], idx), E.proj(acc, s, t.args[2], idx))
	}
	return E.tb.App(acc, s, t)
}

func (E *Engine) field(si *structInfo, v *Term, i int) *Term {
	return E.proj(si.fields[i].name, si.fields[i].sort, v, i)
}

func (E *Engine) setField(si *structInfo, v *Term, i int, x *Term) *Term {
	args := make([]*Term, len(si.fields))
	for j := range si.fields {
		if j == i {
			args[j] = x
		} else {
			args[j] = E.field(si, v, j)
		}
	}
	return E.mkStruct(si, args)
}

// mkStruct builds a struct value; rebuilding a value from its own fields yields the value.
func (E *Engine) mkStruct(si *structInfo, args []*Term) *Term {
	var src *Term
	same := len(args) > 0
	for i, a := range args {
		if a.op != si.fields[i].name || len(a.args) != 1 {
			same = false
			break
		}
		if i == 0 {
			src = a.args[0]
		} else if a.args[0] != src {
			same = false
			break
		}
	}
	if same && src != nil && src.sort == si.sort {
		return src
	}
	return E.tb.App(si.ctor, si.sort, args...)
}

// ---- strings ----

func (E *Engine) strLit(s string) *Term {
	tb := E.tb
	if tb.useStrings {
		return tb.intern(&Term{atom: smtStringLit(s), sort: "String", kind: kLit})
	}
	if t, ok := tb.strLits[s]; ok {
		return t
	}
	E.strSort()
	name := fmt.Sprintf("str$%d", len(tb.strLits))
	if s == "" {
		name = "str$empty"
	}
	t := tb.Const(name, "Str")
	tb.strLits[s] = t
	tb.strLitLen[t] = len(s)
	E.strLitText[name] = s
	return t
}

func smtStringLit(s string) string {
	var sb strings.Builder
	sb.WriteByte('"')
	for _, r := range s {
		switch {
		case r == '"':
			sb.WriteString(`""`)
		case r < 32 || r > 126 || r == '\\':
			sb.WriteString(fmt.Sprintf(`\u{%x}`, r))
		default:
			sb.WriteRune(r)
		}
	}
	sb.WriteByte('"')
	return sb.String()
}

func (E *Engine) strLen(s *Term) *Term {
	if E.tb.useStrings {
		return E.tb.App("str.len", SInt, s)
	}
	tb := E.tb
	tb.DeclFunc("strlen", []Sort{"Str"}, SInt)
	x := tb.BVar("s", "Str")
	tb.AddAxiom("strlen-range", tb.Forall([]*Term{x}, tb.And(tb.Cmp("<=", tb.Int(0), tb.App("strlen", SInt, x)), tb.Cmp("<=", tb.App("strlen", SInt, x), tb.IntStr("9223372036854775807")))), "strlen")
	// the empty string is the only string of length 0 (ground instance for this string)
	r := tb.UF("strlen", SInt, s)
	if !s.bound {
		e := E.strLit("")
		if s != e {
			tb.AddTermAxiom(fmt.Sprintf("strlen0#%d", s.id), tb.Eq(tb.Eq(r, tb.Int(0)), tb.Eq(s, e)), r)
		}
	}
	return r
}

func (E *Engine) strConcat(a, b *Term) *Term {
	if E.tb.useStrings {
		return E.tb.App("str.++", "String", a, b)
	}
	return E.tb.UF("strcat", "Str", a, b)
}

// ---- type ids for interfaces ----

func (E *Engine) typeID(t types.Type, env TEnv) *Term {
	t = E.subst(t, env)
	k := types.TypeString(t, nil)
	id, ok := E.typeIDs[k]
	if !ok {
		id = len(E.typeIDs) + 1
		E.typeIDs[k] = id
		E.typeByID[id] = t
	}
	return E.tb.Int(int64(id))
}

// box turns a value of a non-reference sort into the Ref payload of an interface value.
func (E *Engine) box(v *Term) *Term {
	if v.sort == SRef {
		return v
	}
	n := "box$" + sanitize(string(v.sort))
	u := "unbox$" + sanitize(string(v.sort))
	b := E.tb.UF(n, SRef, v)
	// injectivity: unbox(box(x)) = x
	x := E.tb.BVar("x", v.sort)
	E.tb.DeclFunc(u, []Sort{SRef}, v.sort)
	E.tb.AddAxiom("unbox:"+n, E.tb.Forall([]*Term{x}, E.tb.Eq(E.tb.App(u, v.sort, E.tb.App(n, SRef, x)), x)), n)
	return b
}

func (E *Engine) unbox(r *Term, s Sort) *Term {
	if s == SRef {
		return r
	}
	n := "box$" + sanitize(string(s))
	u := "unbox$" + sanitize(string(s))
	if r.op == n {
		return r.args[0]
	}
	E.tb.DeclFunc(u, []Sort{SRef}, s)
	E.tb.DeclFunc(n, []Sort{s}, SRef)
	x := E.tb.BVar("x", s)
	E.tb.AddAxiom("unbox:"+n, E.tb.Forall([]*Term{x}, E.tb.Eq(E.tb.App(u, s, E.tb.App(n, SRef, x)), x)), n)
	return E.tb.App(u, s, r)
}

// wellTyped is the type invariant of a symbolic value (ranges of sized integers, slice header shape).
func (E *Engine) wellTyped(v *Term, t types.Type, env TEnv) *Term {
	tb := E.tb
	t = types.Unalias(E.subst(t, env))
	switch v.sort {
	case SInt:
		if b, ok := t.Underlying().(*types.Basic); ok {
			lo, hi := intRange(b.Kind())
			if lo != "" {
				return tb.And(tb.Cmp("<=", tb.IntStr(lo), v), tb.Cmp("<=", v, tb.IntStr(hi)))
			}
		}
	case SSlc:
		return tb.And(tb.Cmp("<=", tb.Int(0), E.slcOff(v)), tb.Cmp("<=", tb.Int(0), E.slcLen(v)), tb.Cmp("<=", E.slcLen(v), E.slcCap(v)),
			tb.Cmp("<=", tb.Arith("+", E.slcOff(v), E.slcCap(v)), tb.IntStr("9223372036854775807")),
			tb.Implies(tb.Eq(E.slcArr(v), E.null()), tb.Eq(E.slcCap(v), tb.Int(0))))
	}
	if v.sort == SIfc {
		if v.op == "mkiface" {
			return tb.True()
		}
		return tb.And(tb.Cmp(">=", E.ifcTag(v), tb.Int(0)), tb.Implies(tb.Eq(E.ifcTag(v), tb.Int(0)), tb.Eq(E.ifcVal(v), E.null())))
	}
	if v.sort == E.strSort() {
		// lengths of strings are in range: a global axiom in UF mode (see strLen), built in otherwise
		return tb.True()
	}
	return tb.True()
}

func intRange(k types.BasicKind) (string, string) {
	switch k {
	case types.Int, types.Int64:
		return "-9223372036854775808", "9223372036854775807"
	case types.Int32:
		return "-2147483648", "2147483647"
	case types.Int16:
		return "-32768", "32767"
	case types.Int8:
		return "-128", "127"
	case types.Uint, types.Uint64, types.Uintptr:
		return "0", "18446744073709551615"
	case types.Uint32:
		return "0", "4294967295"
	case types.Uint16:
		return "0", "65535"
	case types.Uint8:
		return "0", "255"
	}
	return "", ""
}
