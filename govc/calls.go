package main

import (
	"fmt"
	"go/token"
	"go/types"
	"strconv"
	"strings"

	"golang.org/x/tools/go/packages"
	"golang.org/x/tools/go/ssa"
)

const verifPkg = "istio.io/istio/pkg/verif."

func (E *Engine) setState(dst, src *State) {
	dst.reach = src.reach
	dst.heap = src.heap
	dst.base = src.base
}

func pack(res []Val) Val {
	switch len(res) {
	case 0:
		return nil
	case 1:
		return res[0]
	}
	return Tuple(res)
}

// calleeName: the name a //verif:call-assert uses for this call.
func calleeName(cc *ssa.CallCommon) string {
	if cc.IsInvoke() {
		return cc.Method.Name()
	}
	if f := cc.StaticCallee(); f != nil {
		return originOf(f).Name()
	}
	return ""
}

// checkCallAsserts emits the call-site assertions registered for this call.
func (E *Engine) checkCallAsserts(fr *Frame, st *State, cc *ssa.CallCommon, instr ssa.Instruction, recv Val, args []Val) {
	cas := E.P.callAsserts[originOf(fr.fn)]
	if len(cas) == 0 || fr.spec {
		return
	}
	name := calleeName(cc)
	if name == "" {
		return
	}
	// ordinal of this call among the calls of that name
	ord, idx := 0, -1
	blk := instr.Block()
	for _, b := range fr.fn.Blocks {
		for i, in := range b.Instrs {
			if in == instr {
				idx = i
				goto found
			}
			if ci, ok := in.(ssa.CallInstruction); ok && calleeName(ci.Common()) == name {
				ord++
			}
		}
	}
found:
	for _, ca := range cas {
		if ca.callee != name || ca.ordinal != ord {
			continue
		}
		var vals []Val
		for _, p := range ca.fn.Params {
			pn := p.Name()
			var v Val
			switch {
			case pn == "recv":
				v = recv
			case strings.HasPrefix(pn, "arg") && len(pn) > 3 && pn[3] >= '0' && pn[3] <= '9':
				n, _ := strconv.Atoi(pn[3:])
				if n < len(args) {
					v = args[n]
				}
			default:
				v = E.resolveParam(fr, st, blk, idx, p, ca.fn.Params)
			}
			if v == nil {
				E.fail("call-assert %s: cannot resolve %q at the call of %s in %s", ca.label, pn, name, fr.fn)
			}
			vals = append(vals, v)
		}
		nf := E.newFrame(ca.fn, fr, nil)
		nf.spec = true
		nf.ghost = true
		sub := st.clone()
		sub.reach = E.tb.True()
		res, _ := E.execFunc(nf, sub, vals)
		E.addObl(fr, st, "callsite", fmt.Sprintf("%s:%s@%d:%s", shortFn(fr.fn), name, ord, ca.label), res[0].(*Term), instr.Pos())
	}
}

func (E *Engine) call(fr *Frame, st *State, cc *ssa.CallCommon, instr ssa.Instruction) Val {
	if len(E.P.callAsserts[originOf(fr.fn)]) > 0 && !fr.spec {
		var as []Val
		for _, a := range cc.Args {
			as = append(as, E.value(fr, a))
		}
		var recv Val
		if cc.IsInvoke() {
			recv = E.value(fr, cc.Value)
		}
		E.checkCallAsserts(fr, st, cc, instr, recv, as)
	}
	var args []Val
	if cc.IsInvoke() {
		recv := E.term(fr, cc.Value)
		for _, a := range cc.Args {
			args = append(args, E.value(fr, a))
		}
		return E.invoke(fr, st, recv, cc, args, instr)
	}
	for _, a := range cc.Args {
		args = append(args, E.value(fr, a))
	}
	switch v := cc.Value.(type) {
	case *ssa.Builtin:
		return E.builtin(fr, st, v, cc, args, instr)
	case *ssa.Function:
		return E.callFn(fr, st, v, args, nil, instr)
	case *ssa.MakeClosure:
		c := E.value(fr, v).(*Closure)
		return E.callFn(fr, st, c.fn, args, c.bind, instr)
	}
	if u, ok := cc.Value.(*ssa.UnOp); ok && u.Op == token.MUL {
		if fa, ok := u.X.(*ssa.FieldAddr); ok {
			if name := fieldPath(fa); name != "" && E.P.pureMethods["callback:"+name] {
				E.note("trusted: calls through the function-typed field " + name + " have no effect on verified state (//verif:quiet-callback)")
				return E.freshResults(fr, st, "cb", cc.Signature().Results())
			}
		}
		if g, ok := u.X.(*ssa.Global); ok {
			if fn := E.P.funcVar(g); fn != nil {
				E.note("package-level function variable " + g.Name() + " is assigned only at initialisation: a call through it is a call of that function")
				return E.callFn(fr, st, fn, args, nil, instr)
			}
		}
	}
	x := E.value(fr, cc.Value)
	switch c := x.(type) {
	case *Closure:
		return E.callFn(fr, st, c.fn, args, c.bind, instr)
	case *Term:
		if cl, ok := E.closureByRef[c]; ok {
			return E.callFn(fr, st, cl.fn, args, cl.bind, instr)
		}
		if v, ok := E.callThroughIte(fr, st, c, args, instr); ok {
			return v
		}
		if E.pureFns[c] {
			E.note("function-typed parameters of a //verif:pure-func-params contract are pure functions of their arguments")
			return E.pureResult(fr, st, "apply$"+sanitize(cc.Signature().String()), cc.Signature().Results(), append([]Val{c}, args...), nil)
		}
		return E.unknownCall(fr, st, "call through function value "+cc.Value.Name()+" in "+shortFn(fr.fn)+" ("+E.tb.Show(c)+")", cc.Signature().Results(), instr, args)
	}
	E.fail("call through %T", x)
	return nil
}

// callThroughIte: the called value is a choice between statically known functions (a function-typed
// variable assigned in the branches of an if): the call is executed once per alternative, each under
// its condition, and the outcomes are joined.
func (E *Engine) callThroughIte(fr *Frame, st *State, c *Term, args []Val, instr ssa.Instruction) (Val, bool) {
	if c.op != "ite" {
		return nil, false
	}
	var resolvable func(t *Term, depth int) bool
	resolvable = func(t *Term, depth int) bool {
		if _, ok := E.closureByRef[t]; ok {
			return true
		}
		return t.op == "ite" && depth < 4 && resolvable(t.args[1], depth+1) && resolvable(t.args[2], depth+1)
	}
	if !resolvable(c, 0) {
		return nil, false
	}
	cond := c.args[0]
	var outs []*State
	var guards []*Term
	var vals []Val
	for i, alt := range []*Term{c.args[1], c.args[2]} {
		g := cond
		if i == 1 {
			g = E.tb.Not(cond)
		}
		sub := st.clone()
		sub.reach = E.tb.And(st.reach, g)
		var v Val
		if cl, ok := E.closureByRef[alt]; ok {
			v = E.callFn(fr, sub, cl.fn, args, cl.bind, instr)
		} else {
			v, _ = E.callThroughIte(fr, sub, alt, args, instr)
		}
		outs = append(outs, sub)
		guards = append(guards, sub.reach)
		vals = append(vals, v)
	}
	merged := E.mergeStates(outs, guards)
	merged.reach = E.tb.Or(guards...)
	E.setState(st, merged)
	if vals[0] == nil {
		return nil, true
	}
	return E.iteVal(E.tb.And(cond), vals[0], vals[1]), true
}

// fieldPath: "Struct.field" of a field address.
func fieldPath(fa *ssa.FieldAddr) string {
	pt, ok := types.Unalias(fa.X.Type()).Underlying().(*types.Pointer)
	if !ok {
		return ""
	}
	st, ok := types.Unalias(pt.Elem()).Underlying().(*types.Struct)
	if !ok || fa.Field >= st.NumFields() {
		return ""
	}
	name := ""
	if n, ok := types.Unalias(pt.Elem()).(*types.Named); ok {
		name = n.Obj().Name()
	}
	return name + "." + st.Field(fa.Field).Name()
}

var noEffectMethods = map[string]bool{"Lock": true, "Unlock": true, "RLock": true, "RUnlock": true}

func (E *Engine) invoke(fr *Frame, st *State, recv *Term, cc *ssa.CallCommon, args []Val, instr ssa.Instruction) Val {
	tb := E.tb
	full0 := cc.Value.Type().String() + "." + cc.Method.Name()
	if E.isNoEffect(full0, cc.Method.Pkg()) && !isErrorIface(cc.Value.Type()) {
		// logging and metrics objects: initialised package variables, calls without effect (E1)
		E.note("calls into " + cc.Method.Pkg().Path() + " have no effect on verified state and their receivers are initialised (E1)")
	} else {
		E.safety(fr, st, "nil-iface", tb.Not(tb.Eq(E.ifcTag(recv), tb.Int(0))), instr)
	}
	if tag, ok := E.ifcTag(recv).IntVal(); ok && tag != 0 {
		ct := E.typeByID[int(tag)]
		ms := E.P.prog.MethodSets.MethodSet(ct)
		sel := ms.Lookup(cc.Method.Pkg(), cc.Method.Name())
		if sel != nil {
			fn := E.P.prog.MethodValue(sel)
			if fn != nil {
				rv := E.unbox(E.ifcVal(recv), E.sortOf(ct, nil))
				return E.callFn(fr, st, fn, append([]Val{rv}, args...), nil, instr)
			}
		}
	}
	name := cc.Method.Name()
	if fr.useMode && fr.useIface != "" && fr.useIface == cc.Value.Type().String()+"."+name {
		// the summarised step inside a trusted interface-method contract
		if fr.oldSt != nil {
			E.fail("interface contract %s calls its method more than once", fr.fn)
		}
		fr.oldSt = st.clone()
		v := E.pureResult(fr, st, fr.useIface, cc.Signature().Results(), append([]Val{recv}, args...), instr)
		fr.useResult = v
		return v
	}
	if noEffectMethods[name] && isSyncLocker(cc.Value.Type()) {
		E.note("sync primitives are correct and have no effect on verified state (no interleaving explored)")
		return nil
	}
	// interface-method contract?
	if h := E.ifaceContract(cc); h != nil {
		return E.useContract(fr, st, h, nil, append([]Val{recv}, args...), instr)
	}
	full := cc.Value.Type().String() + "." + name
	if E.isNoEffect(full, cc.Method.Pkg()) {
		return E.pureResult(fr, st, full, cc.Signature().Results(), append([]Val{recv}, args...), instr)
	}
	if E.P.pureMethods[full] || E.P.pureMethods[normIface(full)] {
		E.note("trusted: interface method " + shortName(normIface(full)) + " has no effect and returns a function of its receiver and arguments (//verif:pure-method)")
		return E.pureResult(fr, st, normIface(full), cc.Signature().Results(), append([]Val{recv}, args...), instr)
	}
	return E.unknownCall(fr, st, "interface call "+full, cc.Signature().Results(), instr, args)
}

func isErrorIface(t types.Type) bool { return t.String() == "error" }

func isSyncLocker(t types.Type) bool {
	s := t.String()
	return s == "sync.Locker"
}

func (E *Engine) ifaceContract(cc *ssa.CallCommon) *Harness {
	key := cc.Value.Type().String() + "." + cc.Method.Name()
	if h := E.P.ifaceContracts[key]; h != nil {
		return h
	}
	return E.P.ifaceContracts[normIface(key)]
}

// normIface drops type arguments from an interface-method name ("pkg.I[K, V].M" -> "pkg.I.M"), so that a
// directive can name a method of a generic interface whatever it is instantiated with.
func normIface(s string) string {
	var sb strings.Builder
	depth := 0
	for _, r := range s {
		switch {
		case r == '[':
			depth++
		case r == ']':
			depth--
		case depth == 0:
			sb.WriteRune(r)
		}
	}
	return sb.String()
}

// resultVals builds fresh, well-typed result values for a call whose effect is not modelled.
func (E *Engine) freshResults(fr *Frame, st *State, hint string, res *types.Tuple) Val {
	var out []Val
	for i := 0; i < res.Len(); i++ {
		t := res.At(i).Type()
		v := E.tb.Fresh(hint, E.sortOf(t, fr.tenv))
		if !fr.spec {
			E.addFact(st, E.wellTyped(v, t, fr.tenv))
			E.assumeAllocated(st, v)
		}
		out = append(out, v)
	}
	return pack(out)
}

// assumeAllocated: references obtained from the environment point to allocated objects (or are nil).
func (E *Engine) assumeAllocated(st *State, v *Term) {
	switch v.sort {
	case SRef:
		E.addFact(st, E.exists(st, v))
	case SSlc:
		E.addFact(st, E.exists(st, E.slcArr(v)))
	case SIfc:
		// payload may be a box (not an allocated object); nothing to say
	}
}

// pureResult: the call has no effect on the heap; its result is a function of its arguments.
// pureArg: what a pure library function may observe of an argument. A pointer to a small struct is
// replaced by the struct's value (its address is irrelevant), slices and maps are accompanied by
// their current contents, so that the result changes when the memory read through them changes.
func (E *Engine) pureArg(fr *Frame, st *State, t *Term, at types.Type) []*Term {
	if at == nil {
		return []*Term{t}
	}
	at = types.Unalias(E.subst(at, fr.tenv))
	switch tt := at.Underlying().(type) {
	case *types.Pointer:
		if si := E.structInfoOf(tt.Elem(), fr.tenv); si != nil && si.sort != SUnit && len(si.fields) <= 12 && t.sort == SRef {
			nested := false
			for _, ft := range si.ftypes {
				if isStruct(ft) {
					nested = true
				}
			}
			if !nested {
				return []*Term{E.tb.Eq(t, E.null()), E.loadObj(st, t, tt.Elem(), fr.tenv)}
			}
		}
	case *types.Slice:
		if t.sort == SSlc {
			k, ks := E.arrKey(tt.Elem(), fr.tenv)
			return []*Term{t, E.tb.Select(E.get(st, k, ks), E.slcArr(t))}
		}
	case *types.Map:
		if t.sort == SRef {
			out := []*Term{t, E.mapDom(st, t, tt, fr.tenv)}
			if E.sortOf(tt.Elem(), fr.tenv) != SUnit {
				out = append(out, E.mapVal(st, t, tt, fr.tenv))
			}
			return out
		}
	}
	return []*Term{t}
}

func (E *Engine) pureResult(fr *Frame, st *State, name string, res *types.Tuple, args []Val, instr ssa.Instruction) Val {
	var argTypes []types.Type
	if ci, ok := instr.(ssa.CallInstruction); ok {
		cc := ci.Common()
		if cc.IsInvoke() {
			argTypes = append(argTypes, cc.Value.Type())
		}
		for _, a := range cc.Args {
			argTypes = append(argTypes, a.Type())
		}
	}
	if res.Len() == 0 {
		return nil
	}
	var targs []*Term
	allTerms := true
	for i, a := range args {
		if t, ok := a.(*Term); ok {
			var at types.Type
			if argTypes != nil && i < len(argTypes) {
				at = argTypes[i]
			}
			targs = append(targs, E.pureArg(fr, st, t, at)...)
		} else {
			allTerms = false
		}
	}
	if !allTerms || E.nondet(name) {
		if fr.spec {
			E.fail("specification calls %s whose result cannot be expressed as a function of its arguments", name)
		}
		return E.freshResults(fr, st, "ret$"+lastName(name), res)
	}
	var out []Val
	for i := 0; i < res.Len(); i++ {
		t := res.At(i).Type()
		v := E.tb.UF(fmt.Sprintf("ext$%s$%d", sanitize(name), i), E.sortOf(t, fr.tenv), targs...)
		if !fr.spec {
			E.addFact(st, E.wellTyped(v, t, fr.tenv))
			if name == "strings.Split" && i == 0 && len(targs) == 2 {
				// documented: a non-empty separator yields at least one element
				E.note("trusted library model: strings.Split with a non-empty separator returns at least one element")
				E.addFact(st, E.tb.Implies(E.tb.Not(E.tb.Eq(targs[1], E.strLit(""))), E.tb.Cmp(">=", E.slcLen(v), E.tb.Int(1))))
			}
			if name == "strings.SplitN" && i == 0 && len(targs) == 3 {
				E.note("trusted library model: strings.SplitN with a non-empty separator and n != 0 returns at least one element (at most n when n > 0)")
				E.addFact(st, E.tb.Implies(E.tb.And(E.tb.Not(E.tb.Eq(targs[1], E.strLit(""))), E.tb.Not(E.tb.Eq(targs[2], E.tb.Int(0)))), E.tb.Cmp(">=", E.slcLen(v), E.tb.Int(1))))
				E.addFact(st, E.tb.Implies(E.tb.Cmp(">", targs[2], E.tb.Int(0)), E.tb.Cmp("<=", E.slcLen(v), targs[2])))
			}
		}
		out = append(out, v)
	}
	return pack(out)
}

func lastName(s string) string {
	if i := strings.LastIndexAny(s, "./"); i >= 0 {
		return s[i+1:]
	}
	return s
}

func (E *Engine) nondet(name string) bool {
	if strings.HasPrefix(name, "time.Now") || strings.HasPrefix(name, "time.Since") || strings.Contains(name, "rand.") {
		return true
	}
	// atomics: what a Load (Swap, Add, CompareAndSwap ...) returns is not a function of the pointer alone -
	// a Store in between, here or in another goroutine, changes it
	if strings.Contains(name, "sync/atomic.") || strings.Contains(name, "go.uber.org/atomic.") {
		return true
	}
	// objects with hidden state that their own methods change: what String / Sum / Len ... return is not a
	// function of the receiver's identity
	for _, p := range []string{"(*strings.Builder).", "(*bytes.Buffer).", "(hash.Hash", "(*github.com/cespare/xxhash/v2.Digest).", "istio.io/istio/pkg/util/hash."} {
		if strings.Contains(name, p) {
			return true
		}
	}
	return false
}

var noEffectPkgs = []string{
	"istio.io/istio/pkg/log", "istio.io/istio/pkg/monitoring", "fmt", "strconv", "time", "sync", "sync/atomic", "errors",
	"strings", "unicode", "unicode/utf8", "sort", "math", "bytes", "net/netip", "net", "path", "regexp",
	"google.golang.org/grpc/codes", "google.golang.org/grpc/status", "google.golang.org/grpc/internal/status", "go.uber.org/atomic",
	"istio.io/istio/pkg/env", "cmp", "slices", "maps", "hash", "github.com/cespare/xxhash/v2", "istio.io/istio/pkg/util/hash",
	"google.golang.org/protobuf/types/known/wrapperspb", "google.golang.org/protobuf/types/known/durationpb",
	"k8s.io/apimachinery/pkg/types", "k8s.io/apimachinery/pkg/labels", "istio.io/istio/pilot/pkg/util/protoconv",
	"k8s.io/apimachinery/pkg/apis/meta/v1", "istio.io/istio/pkg/spiffe", "istio.io/istio/pilot/pkg/model/credentials",
}

func (E *Engine) isNoEffect(name string, pkg *types.Package) bool {
	if pkg == nil {
		return false
	}
	p := pkg.Path()
	for _, n := range noEffectPkgs {
		if p == n {
			return true
		}
	}
	return false
}

// unknownCall: no body, no contract, not on the no-effect list: the whole heap is havocked.
func (E *Engine) unknownCall(fr *Frame, st *State, what string, res *types.Tuple, instr ssa.Instruction, args []Val) Val {
	if fr.spec {
		E.fail("specification reaches unmodelled call: %s", what)
	}
	for _, a := range args {
		E.escape(a)
	}
	if ci, ok := instr.(ssa.CallInstruction); ok && ci != nil && ci.Common().IsInvoke() {
		E.escape(E.value(fr, ci.Common().Value))
	}
	E.note("unmodelled call havocs the heap: " + what)
	E.havocAll(st)
	return E.freshResults(fr, st, "ret", res)
}

func (E *Engine) havocAll(st *State) {
	al := E.clock(st)
	old := st.clone()
	E.nextBase++
	st.base = E.nextBase
	st.heap = map[string]*Term{}
	for k, v := range old.heap {
		if E.frozenKey[k] {
			st.heap[k] = v
		}
	}
	E.addFact(st, E.tb.Cmp("<=", al, E.clock(st)))
	if c, ok := old.heap["time$clock"]; ok {
		E.addFact(st, E.tb.Cmp("<=", c, E.get(st, "time$clock", SInt)))
	}
	E.preserveUnescaped(st, old, nil)
}

// Objects allocated by the code under verification that have not escaped (never stored into memory,
// passed to a call that is not executed inline, or captured by a closure) cannot be reached by
// unknown code: they keep their contents across a havoc.
type localObj struct {
	ref  *Term
	copy func(dst, src *State)
	keys map[string]bool
}

func (E *Engine) registerLocal(ref *Term, keys map[string]bool, cp func(dst, src *State)) {
	E.locals = append(E.locals, &localObj{ref: ref, copy: cp, keys: keys})
}

// escape marks every freshly allocated object whose reference occurs in v as escaped.
func (E *Engine) escape(v Val) {
	if len(E.locals) == 0 {
		return
	}
	switch x := v.(type) {
	case *Term:
		E.escapeTerm(x)
	case Tuple:
		for _, y := range x {
			E.escape(y)
		}
	case *Closure:
		for _, b := range x.bind {
			E.escape(b)
		}
	case *Addr:
		E.escapeTerm(x.ref)
	}
}

func (E *Engine) escapeTerm(t *Term) {
	if t == nil || E.escSeen[t] {
		return
	}
	E.escSeen[t] = true
	if t.kind == kConst && strings.HasPrefix(t.atom, "&") {
		E.escaped[t] = true
		return
	}
	// do not look inside heap reads: the value read is what matters, and it was marked when stored
	if t.op == "select" {
		return
	}
	for _, a := range t.args {
		E.escapeTerm(a)
	}
}

// preserveUnescaped copies the contents of unescaped local objects from old into st, for the heap
// arrays in only (nil: all).
func (E *Engine) preserveUnescaped(st, old *State, only map[string]bool) {
	for _, lo := range E.locals {
		if E.escaped[lo.ref] {
			continue
		}
		if only != nil {
			hit := false
			for k := range lo.keys {
				if only[k] {
					hit = true
				}
			}
			if !hit {
				continue
			}
		}
		lo.copy(st, old)
	}
}

// calleeBody picks the body to execute for fn and the type environment for it.
func (E *Engine) calleeBody(fn *ssa.Function, caller TEnv) (*ssa.Function, TEnv) {
	o := fn.Origin()
	if o == nil || len(fn.TypeArgs()) == 0 {
		if fn.TypeParams() != nil && fn.TypeParams().Len() > 0 {
			return fn, caller // generic origin executed abstractly
		}
		return fn, nil
	}
	tps := o.TypeParams()
	env := TEnv{}
	for i := 0; i < tps.Len() && i < len(fn.TypeArgs()); i++ {
		env[tps.At(i)] = E.subst(fn.TypeArgs()[i], caller)
	}
	if len(o.Blocks) > 0 {
		return o, env
	}
	return fn, nil
}

func (E *Engine) callFn(fr *Frame, st *State, fn *ssa.Function, args []Val, bind []Val, instr ssa.Instruction) Val {
	org := originOf(fn)
	name := org.String()
	if strings.HasPrefix(name, verifPkg) {
		return E.intrinsic(fr, st, name[len(verifPkg):], fn, args, instr)
	}
	if name == "(*sync.Cond).Wait" {
		E.condWait(fr, st, instr)
		return nil
	}
	if v, ok := E.model(fr, st, name, fn, args, instr); ok {
		return v
	}
	body, tenv := E.calleeBody(fn, fr.tenv)
	res := fn.Signature.Results()
	// inside a contract harness executed for a caller: the call to the target is the summarised step
	if fr.useMode && fr.useTarget == org {
		return E.summarise(fr, st, body, tenv, args, res)
	}
	if len(body.Blocks) == 0 {
		if h := E.P.contracts[org]; h != nil && h.Trusted && !fr.spec {
			// a trusted contract on a function outside the loaded source (its frame: writes nothing)
			return E.useContract(fr, st, h, fn, args, instr)
		}
		if E.P.pureFns[org] {
			E.note("declared pure (//verif:pure): " + shortName(name) + " has no effect and returns a function of its arguments")
			return E.pureResult(fr, st, name, res, args, instr)
		}
		return E.external(fr, st, fn, name, args, instr)
	}
	ghostPure := fr.ghost && E.P.pureFns[org] && fr.proveTarget != org // specification text naming a pure function: no effects
	if h := E.P.contracts[org]; h != nil && !fr.spec && !ghostPure && !(fr.proveTarget == org) && !E.harness.InlineTargets[org] {
		return E.useContract(fr, st, h, fn, args, instr)
	}
	if E.P.pureFns[org] && fr.proveTarget != org {
		// declared //verif:pure: no effect, result a function of the arguments (and of the memory read
		// through slice / map / small-struct arguments); an assumption, listed
		E.note("declared pure (//verif:pure): " + shortName(name) + " has no effect and returns a function of its arguments")
		return E.pureResult(fr, st, name, res, args, instr)
	}
	if E.P.opaque[org] {
		ws := E.writes(body, tenv)
		if fr.spec {
			E.fail("specification calls opaque function %s", name)
		}
		E.note("opaque call (declared //verif:opaque): " + name)
		for _, a := range args {
			E.escape(a)
		}
		E.havocKeys(st, ws, E.paramResolver(body, args))
		return E.freshResults(fr, st, "ret$"+lastName(name), res)
	}
	for f := fr; f != nil; f = f.parent {
		if f.fn == body && f != fr {
			E.fail("recursive call of %s without a contract", name)
		}
	}
	if fr.fn == body {
		E.fail("recursive call of %s without a contract", name)
	}
	if !E.P.IsGhost(body) {
		E.inlined[shortFn(org)] = true
	}
	nf := E.newFrame(body, fr, tenv)
	if fr.proveTarget == org {
		// the call under contract: remember the pre-state for Old
		fr.oldSt = st.clone()
		nf.path = fr.path
	}
	for i, fv := range body.FreeVars {
		if i < len(bind) {
			nf.env[fv] = bind[i]
		}
	}
	vals, out := E.execFunc(nf, st, args)
	E.setState(st, out)
	return pack(vals)
}

// paramResolver maps a callee's parameter (used as a write base) to the actual argument's reference.
func (E *Engine) paramResolver(body *ssa.Function, args []Val) func(ssa.Value) (*Term, bool) {
	return func(v ssa.Value) (*Term, bool) {
		switch p := v.(type) {
		case *ssa.Parameter:
			for i, q := range body.Params {
				if q == p && i < len(args) {
					switch t := args[i].(type) {
					case *Term:
						switch t.sort {
						case SRef:
							return t, true
						case SSlc:
							return E.slcArr(t), true
						}
					case *Addr:
						return t.ref, true
					}
				}
			}
		case *ssa.Global:
			return E.globalRef(p), true
		}
		return nil, false
	}
}

// condWait models (*sync.Cond).Wait. In a nonblocking contract the path ends here. Otherwise it is a
// yield point: the lock is released, so the monitor invariant must hold, everything may be changed
// by other goroutines, and only the monitor invariant is known when the call returns.
func (E *Engine) condWait(fr *Frame, st *State, instr ssa.Instruction) {
	if fr.spec {
		E.fail("Wait in specification")
	}
	if E.harness.NonBlocking {
		E.note("nonblocking contract: executions that block in (*sync.Cond).Wait are outside this contract (covered by the monitor-invariant lemma)")
		E.addFact(st, E.tb.False())
		st.reach = E.tb.False()
		return
	}
	inv := E.P.waitInv[originOf(fr.fn)]
	if inv == nil {
		E.fail("(*sync.Cond).Wait in %s without a //verif:monitor-invariant", fr.fn)
	}
	eval := func() *Term {
		var args []Val
		for _, p := range inv.Params {
			var v Val
			for _, q := range fr.fn.Params {
				if q.Name() == p.Name() {
					v = E.value(fr, q)
				}
			}
			if v == nil {
				E.fail("monitor invariant %s: no parameter %q in %s", inv, p.Name(), fr.fn)
			}
			args = append(args, v)
		}
		nf := E.newFrame(inv, fr, nil)
		nf.spec = true
		nf.ghost = true
		sub := st.clone()
		sub.reach = E.tb.True()
		vals, _ := E.execFunc(nf, sub, args)
		return vals[0].(*Term)
	}
	E.addObl(fr, st, "monitor", shortFn(fr.fn)+":invariant-before-wait", eval(), instr.Pos())
	E.note("(*sync.Cond).Wait is a yield point: all memory is havocked and only the monitor invariant is re-assumed (no interleaving explored)")
	E.havocAll(st)
	E.addFact(st, eval())
}

// external: a function without a body in the loaded program.
func (E *Engine) external(fr *Frame, st *State, fn *ssa.Function, name string, args []Val, instr ssa.Instruction) Val {
	res := fn.Signature.Results()
	if v, ok := E.protoGetter(fr, st, fn, args); ok {
		return v
	}
	if isGetter(fn) {
		E.note("getter methods of external types (Get*) are pure functions of their receiver")
		return E.pureResult(fr, st, name, res, args, instr)
	}
	if isStringer(fn) {
		E.note("String/Error methods of external types are pure functions of their receiver")
		return E.pureResult(fr, st, name, res, args, instr)
	}
	var pkg *types.Package
	if fn.Pkg != nil {
		pkg = fn.Pkg.Pkg
	} else if fn.Object() != nil {
		pkg = fn.Object().Pkg()
	} else if o := fn.Origin(); o != nil && o.Object() != nil {
		pkg = o.Object().Pkg()
	}
	if pkg != nil && stdMutatesSlice(pkg.Path(), fn) {
		// sort.* and the in-place functions of the standard slices package rearrange the elements of the
		// slice they are handed: every array of that element type is forgotten (which elements, where)
		ws := newWriteSet()
		ok := false
		if ci, isCall := instr.(ssa.CallInstruction); isCall && len(ci.Common().Args) > 0 {
			if stp := sliceCore(E.subst(ci.Common().Args[0].Type(), fr.tenv)); stp != nil {
				k, srt := E.arrKey(stp.Elem(), fr.tenv)
				E.regKey(ws, k, srt).any = true
				ok = true
			}
		}
		if !ok {
			return E.unknownCall(fr, st, "external "+name, res, instr, args)
		}
		E.note("calls into " + pkg.Path() + " that sort or edit a slice in place forget the contents of every array of that element type; results are unconstrained")
		E.havocKeys(st, ws, func(ssa.Value) (*Term, bool) { return nil, false })
		return E.freshResults(fr, st, "ret$"+lastName(fn.Name()), res)
	}
	if pkg != nil && pkg.Path() == "maps" {
		switch originOf(fn).Name() {
		case "Copy", "DeleteFunc", "Insert":
			// the standard maps package's in-place functions write the map they are handed
			return E.unknownCall(fr, st, "external "+name, res, instr, args)
		}
	}
	if E.isNoEffect(name, pkg) {
		if E.nondet(name) {
			E.note("calls into " + pkg.Path() + " that read a clock, a random source, an atomic or an object with hidden state have no effect on verified state and return unconstrained values (E1)")
		} else {
			E.note("calls into " + pkg.Path() + " have no effect on verified state and return a function of their arguments (E1)")
		}
		return E.pureResult(fr, st, name, res, args, instr)
	}
	return E.unknownCall(fr, st, "external "+name, res, instr, args)
}

// stdMutatesSlice: functions of sort and of the standard slices package that write the slice they are given.
func stdMutatesSlice(pkgPath string, fn *ssa.Function) bool {
	n := originOf(fn).Name()
	switch pkgPath {
	case "sort":
		switch n {
		case "Sort", "Stable", "Slice", "SliceStable", "Strings", "Ints", "Float64s":
			return true
		}
	case "slices":
		switch n {
		case "Sort", "SortFunc", "SortStableFunc", "Reverse", "Compact", "CompactFunc", "Delete", "DeleteFunc", "Insert", "Replace":
			return true
		}
	}
	return false
}

// protoGetter models generated protobuf getters: nil receiver => zero value, else the field.
func (E *Engine) protoGetter(fr *Frame, st *State, fn *ssa.Function, args []Val) (Val, bool) {
	sig := fn.Signature
	if sig.Recv() == nil || len(args) != 1 || sig.Results().Len() != 1 || !strings.HasPrefix(fn.Name(), "Get") {
		return nil, false
	}
	pt, ok := types.Unalias(sig.Recv().Type()).(*types.Pointer)
	if !ok {
		return nil, false
	}
	si := E.structInfoOf(pt.Elem(), nil)
	if si == nil || si.st.NumFields() == 0 {
		return nil, false
	}
	// generated protobuf messages (first field "state") and the Kubernetes object metadata accessors
	if si.st.Field(0).Name() != "state" && !strings.HasPrefix(types.TypeString(pt.Elem(), nil), "k8s.io/apimachinery/pkg/apis/meta/v1.") {
		return nil, false
	}
	fname := fn.Name()[3:]
	for i := 0; i < si.st.NumFields(); i++ {
		f := si.st.Field(i)
		if f.Name() == fname && types.Identical(f.Type(), sig.Results().At(0).Type()) {
			recv, ok := args[0].(*Term)
			if !ok {
				return nil, false
			}
			k, ks := E.fieldKey(si, i)
			v := E.tb.Select(E.get(st, k, ks), recv)
			E.note("generated protobuf getters and Kubernetes ObjectMeta accessors (GetX): nil receiver yields the zero value, otherwise the field X (mechanical rule)")
			return E.tb.Ite(E.tb.Eq(recv, E.null()), E.zero(f.Type(), nil), v), true
		}
	}
	return nil, false
}

// ---------------------------------------------------------------------------------------------
// Contracts: use at a call site
// ---------------------------------------------------------------------------------------------

func (E *Engine) useContract(fr *Frame, st *State, h *Harness, fn *ssa.Function, args []Val, instr ssa.Instruction) Val {
	E.usedCtr[h.Name] = true
	for _, a := range args {
		E.escape(a)
	}
	if h.Trusted {
		E.note("trusted contract (assumed, not proved): " + h.Name)
	}
	var tenv TEnv
	hbody := h.Fn
	if fn != nil && len(fn.TypeArgs()) > 0 && hbody.TypeParams() != nil {
		tenv = TEnv{}
		tps := hbody.TypeParams()
		for i := 0; i < tps.Len() && i < len(fn.TypeArgs()); i++ {
			tenv[tps.At(i)] = E.subst(fn.TypeArgs()[i], fr.tenv)
		}
	} else if fn != nil && hbody.TypeParams() != nil && hbody.TypeParams().Len() > 0 {
		// generic target executed abstractly: positional identification of type parameters
		tenv = TEnv{}
		tps := hbody.TypeParams()
		otp := originOf(fn).TypeParams()
		for i := 0; i < tps.Len() && otp != nil && i < otp.Len(); i++ {
			tenv[tps.At(i)] = E.subst(otp.At(i), fr.tenv)
		}
	}
	if h.PureFuncParams {
		// the contract was proved for pure function arguments: the closure handed over must be one
		for _, a := range args {
			if c, ok := a.(*Closure); ok {
				w := E.writes(c.fn, nil)
				impure := w.all
				for k, kw := range w.keys {
					if k != allocKey && (kw.any || len(kw.bases) > 0) {
						impure = true
					}
				}
				if impure {
					E.fail("contract %s requires a pure function argument, %s writes memory", h.Name, c.fn)
				}
			}
		}
	}
	hf := E.newFrame(hbody, fr, tenv)
	hf.ghost = true
	hf.useMode = true
	hf.useCallerGhost = fr.ghost
	if h.Target != nil {
		hf.useTarget = originOf(h.Target)
	}
	if h.Kind == "iface-contract" {
		hf.useIface = h.TargetS
	}
	hf.useSite = fmt.Sprintf("%s->%s@%s", shortFn(fr.fn), lastName(h.TargetS), E.callOrdinal(fr.fn, instr, h))
	if len(args) != len(hbody.Params) {
		E.fail("contract %s: harness has %d parameters, target is called with %d", h.Name, len(hbody.Params), len(args))
	}
	_, out := E.execFunc(hf, st, args)
	E.setState(st, out)
	if hf.oldSt == nil {
		E.fail("contract %s never calls its target %s", h.Name, h.TargetS)
	}
	return hf.useResult
}

func (E *Engine) callOrdinal(fn *ssa.Function, instr ssa.Instruction, h *Harness) string {
	n := 0
	for _, b := range fn.Blocks {
		for _, in := range b.Instrs {
			if in == instr {
				return fmt.Sprint(n)
			}
			if c, ok := in.(ssa.CallInstruction); ok {
				if f := c.Common().StaticCallee(); f != nil && h.Target != nil && originOf(f) == originOf(h.Target) {
					n++
				}
			}
		}
	}
	return "?"
}

// summarise is the call to the target inside its own contract while that contract is used by a caller:
// havoc what the target may write, produce unconstrained well-typed results.
func (E *Engine) summarise(hf *Frame, st *State, body *ssa.Function, tenv TEnv, args []Val, res *types.Tuple) Val {
	if hf.oldSt != nil {
		E.fail("contract harness %s calls its target more than once", hf.fn)
	}
	hf.oldSt = st.clone()
	if h := E.P.contracts[originOf(body)]; h != nil && h.WritesNothing {
		E.note("trusted frame: " + shortFn(body) + " is assumed to write no memory visible to its caller (//verif:writes-nothing)")
	} else if len(body.Blocks) > 0 {
		ws := E.writes(body, tenv)
		E.havocKeys(st, ws, E.paramResolver(body, args))
	} else if org := originOf(body); org.Pkg != nil && stdMutatesSlice(org.Pkg.Pkg.Path(), body) && body.Signature.Params().Len() > 0 {
		// sort.* / in-place slices.*: the elements of every array of that element type may have moved; the
		// trusted contract says what is known afterwards
		if stp := sliceCore(E.subst(body.Signature.Params().At(0).Type(), tenv)); stp != nil {
			ws := newWriteSet()
			k, srt := E.arrKey(stp.Elem(), tenv)
			E.regKey(ws, k, srt).any = true
			E.havocKeys(st, ws, func(ssa.Value) (*Term, bool) { return nil, false })
		} else {
			E.havocAll(st)
		}
	} else {
		// external target with a trusted contract: the contract's frame is what it writes; by default nothing
	}
	var v Val
	if org := originOf(body); E.P.pureFns[org] {
		// a contract on a function that is also declared //verif:pure: the result is a function of the
		// arguments (so specifications can name it), and the contract constrains it
		E.note("declared pure (//verif:pure): " + shortName(org.String()) + " has no effect and returns a function of its arguments")
		v = E.pureResult(hf, st, org.String(), res, args, nil)
	} else {
		v = E.freshResults(hf, st, "res$"+lastName(body.Name()), res)
	}
	hf.useResult = v
	return v
}

// ---------------------------------------------------------------------------------------------
// Ghost vocabulary
// ---------------------------------------------------------------------------------------------

func (E *Engine) strArg(v Val) string {
	t, ok := v.(*Term)
	if !ok {
		E.fail("label must be a string constant")
	}
	if E.tb.useStrings {
		if t.kind == kLit {
			return strings.Trim(t.atom, `"`)
		}
	} else if s, ok := E.strLitText[t.atom]; ok {
		return s
	}
	E.fail("label must be a string constant")
	return ""
}

// harnessFrame finds the enclosing contract/lemma frame.
func (fr *Frame) contractFrame() *Frame {
	for f := fr; f != nil; f = f.parent {
		if f.useMode || f.proveTarget != nil || f.parent == nil {
			return f
		}
	}
	return nil
}

func (E *Engine) intrinsic(fr *Frame, st *State, name string, fn *ssa.Function, args []Val, instr ssa.Instruction) Val {
	tb := E.tb
	cf := fr.contractFrame()
	switch name {
	case "Requires":
		label := E.strArg(args[0])
		c := args[1].(*Term)
		if cf != nil && cf.useMode {
			if !cf.useCallerGhost {
				E.addObl(fr, st, "pre", cf.useSite+":"+label, c, instr.Pos())
			}
			E.addFact(st, c)
		} else {
			E.addFact(st, c)
			E.requires = append(E.requires, tb.Implies(E.absReach(st), c))
		}
		return nil
	case "Assume":
		label := E.strArg(args[0])
		E.note("assume " + label + " in " + shortFn(fr.fn))
		E.addFact(st, args[1].(*Term))
		return nil
	case "Ensures":
		label := E.strArg(args[0])
		c := args[1].(*Term)
		if cf != nil && cf.useMode {
			E.addFact(st, c)
		} else {
			E.addObl(fr, st, "post", label, c, instr.Pos())
		}
		return nil
	case "Assert", "Lemma":
		label := E.strArg(args[0])
		c := args[1].(*Term)
		if cf != nil && cf.useMode {
			E.addFact(st, c)
		} else {
			E.addObl(fr, st, "assert", label, c, instr.Pos())
			// a proved assertion is available to later ones when it is cheap (quantifier free); use
			// verif.Lemma to make a quantified statement available
			if !hasQuant(c) || name == "Lemma" {
				E.addFact(st, c)
			}
		}
		return nil
	case "Cover":
		label := E.strArg(args[0])
		if cf != nil && cf.useMode {
			return nil
		}
		if !fr.spec {
			E.addObl(fr, st, "cover", label, tb.False(), instr.Pos())
			E.obls[len(E.obls)-1].Cover = true
		}
		return nil
	case "Forall", "Exists":
		c, ok := args[0].(*Closure)
		if !ok {
			E.fail("%s needs a function literal", name)
		}
		pt := c.fn.Signature.Params().At(0).Type()
		body, tenv := E.calleeBody(c.fn, fr.tenv)
		if tenv == nil {
			tenv = fr.tenv
		}
		bv := tb.BVar(c.fn.Params[0].Name(), E.sortOf(pt, tenv))
		nf := E.newFrame(body, fr, tenv)
		nf.spec = true
		nf.ghost = true
		for i, fv := range body.FreeVars {
			nf.env[fv] = c.bind[i]
		}
		sub := st.clone()
		sub.reach = tb.True()
		vals, _ := E.execFunc(nf, sub, []Val{bv})
		b := vals[0].(*Term)
		bv, b = E.absolutize(bv, b)
		// quantified integers are mathematical integers (the same reading wherever the formula is
		// proved or assumed); slices and strings keep their shape invariant
		guard := tb.True()
		if bv.sort != SInt {
			guard = E.wellTyped(bv, pt, tenv)
		}
		if name == "Forall" {
			return tb.Forall([]*Term{bv}, tb.Implies(guard, b))
		}
		return tb.Exists([]*Term{bv}, tb.And(guard, b))
	case "Old":
		c, ok := args[0].(*Closure)
		if !ok {
			E.fail("Old needs a function literal")
		}
		old := E.oldState(fr)
		if old == nil {
			E.fail("Old used before the call under contract in %s", fr.fn)
		}
		sub := old.clone()
		sub.reach = tb.True()
		// captured variables live in cells that may have been written after the snapshot: read them now
		body, tenv := E.calleeBody(c.fn, fr.tenv)
		if tenv == nil {
			tenv = fr.tenv
		}
		for i, b := range c.bind {
			if r, ok := b.(*Term); ok && r.sort == SRef && i < len(body.FreeVars) {
				if pt, ok := body.FreeVars[i].Type().(*types.Pointer); ok {
					E.storeObj(sub, r, pt.Elem(), E.loadObj(st, r, pt.Elem(), tenv), tenv)
				}
			}
		}
		nf := E.newFrame(body, fr, tenv)
		nf.spec = true
		nf.ghost = true
		for i, fv := range body.FreeVars {
			nf.env[fv] = c.bind[i]
		}
		vals, _ := E.execFunc(nf, sub, nil)
		return vals[0]
	case "Any":
		t := fn.Signature.Results().At(0).Type()
		return E.freshResults(fr, st, "any", types.NewTuple(types.NewVar(0, nil, "", E.subst(t, fr.tenv))))
	case "Visited":
		m := args[0].(*Term)
		k := args[1].(*Term)
		for f := fr; f != nil; f = f.parent {
			src := f
			if f.invOf != nil {
				src = f.invOf
			}
			for _, it := range src.iters {
				if it.isMap && it.m == m {
					return tb.Select(E.get(st, it.visKey, ArraySort(it.ks, SBool)), k)
				}
			}
		}
		// the map expression of the specification may be a differently written but equal term: if
		// exactly one map iteration of this key sort is active, that is the one meant
		var only *Iter
		cnt := 0
		for f := fr; f != nil; f = f.parent {
			src := f
			if f.invOf != nil {
				src = f.invOf
			}
			for _, it := range src.iters {
				if it.isMap && it.ks == k.sort && it != only {
					only = it
					cnt++
				}
			}
		}
		if cnt == 1 {
			return tb.Select(E.get(st, only.visKey, ArraySort(only.ks, SBool)), k)
		}
		dbg := ""
		for f := fr; f != nil; f = f.parent {
			src := f
			if f.invOf != nil {
				src = f.invOf
			}
			dbg += fmt.Sprintf(" [%s invOf=%v iters=%d]", shortFn(f.fn), f.invOf != nil, len(src.iters))
			for _, it := range src.iters {
				dbg += fmt.Sprintf("{map=%v ks=%s}", it.isMap, it.ks)
			}
		}
		E.fail("Visited: no range loop over this map (key sort %s) is active in %s:%s", k.sort, fr.fn, dbg)
	case "Same":
		return tb.Eq(args[0].(*Term), args[1].(*Term))
	case "Fresh":
		old := E.oldState(fr)
		if old == nil {
			E.fail("Fresh used before the call under contract in %s", fr.fn)
		}
		r := args[0].(*Term)
		if r.sort == SSlc {
			r = E.slcArr(r)
		}
		if r.sort != SRef {
			E.fail("Fresh needs a reference")
		}
		return tb.And(tb.Not(tb.Eq(r, E.null())), tb.Cmp(">", E.birth(r), E.clock(old)))
	case "Closure0", "Closure1", "Closure2":
		nm := E.strArg(args[0])
		var pkg *packages.Package
		for _, p := range E.P.pkgs {
			if E.harness.Fn.Pkg != nil && p.PkgPath == E.harness.Fn.Pkg.Pkg.Path() {
				pkg = p
			}
		}
		target, err := E.P.FindFunc(pkg, nm)
		if err != nil {
			E.fail("%v", err)
		}
		if len(target.FreeVars) != len(args)-1 {
			var names []string
			for _, fv := range target.FreeVars {
				names = append(names, fv.Name())
			}
			E.fail("%s captures %d variables (%s), %d given", nm, len(target.FreeVars), strings.Join(names, ","), len(args)-1)
		}
		var bind []Val
		for i, fv := range target.FreeVars {
			// captured variables are cells: allocate one holding the given value
			el := fv.Type().(*types.Pointer).Elem()
			cell := E.newRef(st, "cap$"+fv.Name(), fr.spec)
			v, ok := args[i+1].(*Term)
			if !ok {
				E.fail("%s: captured value %d is not a term", nm, i)
			}
			E.storeObj(st, cell, el, v, nil)
			bind = append(bind, cell)
		}
		return &Closure{fn: target, bind: bind}
	case "Snapshot":
		E.snapCount++
		E.snaps[E.snapCount] = st.clone()
		si := E.structInfoOf(fn.Signature.Results().At(0).Type(), nil)
		return E.mkStruct(si, []*Term{tb.Int(int64(E.snapCount))})
	case "At", "Since", "FreshSince":
		sn := E.snapOf(args[0])
		if name == "FreshSince" {
			r := args[1].(*Term)
			if r.sort == SSlc {
				r = E.slcArr(r)
			}
			return tb.And(tb.Not(tb.Eq(r, E.null())), tb.Cmp(">", E.birth(r), E.clock(sn)))
		}
		c, ok := args[1].(*Closure)
		if !ok {
			E.fail("%s needs a function literal", name)
		}
		body, tenv := E.calleeBody(c.fn, fr.tenv)
		if tenv == nil {
			tenv = fr.tenv
		}
		nf := E.newFrame(body, fr, tenv)
		nf.spec = true
		nf.ghost = true
		for i, fv := range body.FreeVars {
			nf.env[fv] = c.bind[i]
		}
		var sub *State
		if name == "At" {
			sub = sn.clone()
			for i, b := range c.bind {
				if r, ok := b.(*Term); ok && r.sort == SRef && i < len(body.FreeVars) {
					if pt, ok := body.FreeVars[i].Type().(*types.Pointer); ok {
						E.storeObj(sub, r, pt.Elem(), E.loadObj(st, r, pt.Elem(), tenv), tenv)
					}
				}
			}
		} else {
			sub = st.clone()
			nf.oldSt = sn
		}
		sub.reach = tb.True()
		vals, _ := E.execFunc(nf, sub, nil)
		return vals[0]
	case "Implies":
		return tb.Implies(args[0].(*Term), args[1].(*Term))
	case "Iff":
		return tb.Eq(args[0].(*Term), args[1].(*Term))
	case "AddUniverse":
		return nil
	}
	E.fail("unknown ghost function verif.%s", name)
	return nil
}

func hasQuant(t *Term) bool {
	seen := map[*Term]bool{}
	var rec func(t *Term) bool
	rec = func(t *Term) bool {
		if seen[t] {
			return false
		}
		seen[t] = true
		if t.kind == kQuant {
			return true
		}
		for _, a := range t.args {
			if rec(a) {
				return true
			}
		}
		return false
	}
	return rec(t)
}

// snapOf resolves a verif.State value to the recorded state.
func (E *Engine) snapOf(v Val) *State {
	t, ok := v.(*Term)
	if ok && len(t.args) == 1 {
		if n, isInt := t.args[0].IntVal(); isInt {
			if s, ok := E.snaps[int(n)]; ok {
				return s
			}
		}
	}
	if len(E.snaps) == 1 {
		// the only snapshot of this harness (its value went through a captured variable)
		return E.snaps[E.snapCount]
	}
	E.fail("verif.State value is not the direct result of verif.Snapshot()")
	return nil
}

// absolutize rewrites a quantifier over a slice index i, whose array reads are all of the form
// A[T+i], into a quantifier over the absolute position k = T+i, so that the bound variable occurs
// bare in array reads (the array property fragment, which the solvers decide).
func (E *Engine) absolutize(bv *Term, body *Term) (*Term, *Term) {
	if bv.sort != SInt {
		return bv, body
	}
	tb := E.tb
	count := map[*Term]int{}
	bare := false
	seen := map[*Term]bool{}
	var walk func(t *Term)
	walk = func(t *Term) {
		if seen[t] || !t.bound {
			return
		}
		seen[t] = true
		if t.op == "select" {
			idx := t.args[1]
			if idx == bv {
				bare = true
			}
			if idx.op == "+" && len(idx.args) == 2 {
				if idx.args[1] == bv && !idx.args[0].bound {
					count[idx.args[0]]++
				} else if idx.args[0] == bv && !idx.args[1].bound {
					count[idx.args[1]]++
				}
			}
		}
		for _, a := range t.args {
			walk(a)
		}
	}
	walk(body)
	if bare || len(count) == 0 {
		return bv, body
	}
	var T *Term
	for t, n := range count {
		if T == nil || n > count[T] || (n == count[T] && t.id < T.id) {
			T = t
		}
	}
	k := tb.BVar("k", SInt)
	nb := tb.Subst(body, map[*Term]*Term{bv: tb.Arith("-", k, T)})
	return k, nb
}

// oldState finds the state Old/Fresh refer to: the state before the call under contract, or, in a
// loop invariant, the state on entry to the function.
func (E *Engine) oldState(fr *Frame) *State {
	for f := fr; f != nil; f = f.parent {
		if f.oldSt != nil {
			return f.oldSt
		}
		if f.invOf != nil {
			return f.invOf.entry
		}
	}
	return nil
}

// ---------------------------------------------------------------------------------------------
// Builtins
// ---------------------------------------------------------------------------------------------

func (E *Engine) builtin(fr *Frame, st *State, b *ssa.Builtin, cc *ssa.CallCommon, args []Val, instr ssa.Instruction) Val {
	tb := E.tb
	switch b.Name() {
	case "len", "cap":
		x := args[0].(*Term)
		xt := types.Unalias(E.subst(cc.Args[0].Type(), fr.tenv)).Underlying()
		switch tt := xt.(type) {
		case *types.Slice:
			if b.Name() == "len" {
				return E.slcLen(x)
			}
			return E.slcCap(x)
		case *types.Basic:
			return E.strLen(x)
		case *types.Map:
			return E.mapLen(E.mapDom(st, x, tt, fr.tenv))
		case *types.Array:
			return tb.Int(tt.Len())
		case *types.Pointer:
			return tb.Int(types.Unalias(tt.Elem()).Underlying().(*types.Array).Len())
		case *types.Chan:
			return E.freshResults(fr, st, "chanlen", types.NewTuple(types.NewVar(0, nil, "", types.Typ[types.Int])))
		}
		E.fail("len of %s", xt)
	case "append":
		return E.appendBuiltin(fr, st, cc, args, instr)
	case "copy":
		return E.copyBuiltin(fr, st, cc, args, instr)
	case "delete":
		mt := E.mapType(cc.Args[0].Type(), fr.tenv)
		E.mapDelete(fr, st, args[0].(*Term), args[1].(*Term), mt)
		return nil
	case "clear":
		xt := types.Unalias(E.subst(cc.Args[0].Type(), fr.tenv)).Underlying()
		if mt, ok := xt.(*types.Map); ok {
			ks := E.sortOf(mt.Key(), fr.tenv)
			m := args[0].(*Term)
			dk, dks := E.mdomKey(mt, fr.tenv)
			dh := E.get(st, dk, dks)
			E.set(st, dk, tb.Ite(tb.Eq(m, E.null()), dh, tb.Store(dh, m, tb.ConstArray(ArraySort(ks, SBool), tb.False()))))
			return nil
		}
		if stp, ok := xt.(*types.Slice); ok {
			// clear(slice): the elements are zeroed; modelled as "the backing array's contents are forgotten"
			// (an over-approximation: nothing is claimed about them afterwards)
			sl := args[0].(*Term)
			ak, aks := E.arrKey(stp.Elem(), fr.tenv)
			ah := E.get(st, ak, aks)
			_, inner := aks.ArrayParts()
			E.set(st, ak, tb.Store(ah, E.slcArr(sl), tb.Fresh("cleared", inner)))
			return nil
		}
		E.fail("clear of %s", xt)
	case "min", "max":
		r := args[0].(*Term)
		for _, a := range args[1:] {
			x := a.(*Term)
			var c *Term
			if r.sort == E.strSort() {
				c = E.strLess(r, x)
			} else {
				c = tb.App("<", SBool, r, x)
			}
			if b.Name() == "min" {
				r = tb.Ite(c, r, x)
			} else {
				r = tb.Ite(c, x, r)
			}
		}
		return r
	case "print", "println":
		return nil
	case "ssa:wrapnilchk":
		x := args[0].(*Term)
		E.safety(fr, st, "nil", tb.Not(tb.Eq(x, E.null())), instr)
		return x
	case "panic":
		return nil
	case "recover":
		return E.nilIface()
	case "close":
		return nil
	}
	E.fail("builtin %s unsupported", b.Name())
	return nil
}

func (E *Engine) appendBuiltin(fr *Frame, st *State, cc *ssa.CallCommon, args []Val, instr ssa.Instruction) Val {
	tb := E.tb
	s := args[0].(*Term)
	stp := types.Unalias(E.subst(cc.Args[0].Type(), fr.tenv)).Underlying().(*types.Slice)
	es := E.sortOf(stp.Elem(), fr.tenv)
	var add *Term // appended slice (or string for []byte...)
	if yt, ok := types.Unalias(E.subst(cc.Args[1].Type(), fr.tenv)).Underlying().(*types.Slice); ok {
		_ = yt
		add = args[1].(*Term)
	} else {
		E.fail("append(%s, %s...) unsupported", cc.Args[0].Type(), cc.Args[1].Type())
	}
	ak, aks := E.arrKey(stp.Elem(), fr.tenv)
	n := E.slcLen(add)
	if v, ok := n.IntVal(); ok && v == 0 {
		return s
	}
	newLen := tb.Arith("+", E.slcLen(s), n)
	fits := tb.Cmp("<=", newLen, E.slcCap(s))
	ah := E.get(st, ak, aks)
	srcArr := tb.Select(ah, E.slcArr(add))
	// resulting backing array contents: defined by a fresh array constrained pointwise
	// in place: dst[off+len+j] = add[j]; otherwise fresh array with copy of the prefix
	fresh := E.newRef(st, "append", fr.spec)
	newCap := tb.Fresh("cap", SInt)
	resArr := tb.Ite(fits, E.slcArr(s), fresh)
	resOff := tb.Ite(fits, E.slcOff(s), tb.Int(0))
	resCap := tb.Ite(fits, E.slcCap(s), newCap)
	// content of the target array after the append
	oldDst := tb.Select(ah, E.slcArr(s))
	var content *Term
	if one, isOne := n.IntVal(); isOne && one <= 4 {
		// common case: append of a few elements, written as stores
		inPlace := oldDst
		moved := tb.Fresh("arr", ArraySort(SInt, es))
		for j := int64(0); j < one; j++ {
			el := tb.Select(srcArr, tb.Arith("+", E.slcOff(add), tb.Int(j)))
			inPlace = tb.Store(inPlace, tb.Arith("+", tb.Arith("+", E.slcOff(s), E.slcLen(s)), tb.Int(j)), el)
		}
		i := tb.BVar("i", SInt)
		if !fr.spec {
			conj := []*Term{tb.Forall([]*Term{i}, tb.Implies(tb.And(tb.Cmp("<=", tb.Int(0), i), tb.Cmp("<", i, E.slcLen(s))),
				tb.Eq(tb.Select(moved, i), tb.Select(oldDst, tb.Arith("+", E.slcOff(s), i)))))}
			for j := int64(0); j < one; j++ {
				el := tb.Select(srcArr, tb.Arith("+", E.slcOff(add), tb.Int(j)))
				conj = append(conj, tb.Eq(tb.Select(moved, tb.Arith("+", E.slcLen(s), tb.Int(j))), el))
			}
			E.addFact(st, tb.Implies(tb.Not(fits), tb.And(conj...)))
		}
		content = tb.Ite(fits, inPlace, moved)
	} else {
		na := tb.Fresh("arr", ArraySort(SInt, es))
		i := tb.BVar("i", SInt)
		if !fr.spec {
			base := tb.Ite(fits, tb.Arith("+", E.slcOff(s), E.slcLen(s)), E.slcLen(s))
			E.addFact(st, tb.And(
				// appended part, quantified over the absolute position in the target (so that a read of the
				// target array triggers the instantiation): na[p] = src[srcOff + (p - base)] for base <= p < base+n
				tb.Forall([]*Term{i}, tb.Implies(tb.And(tb.Cmp("<=", base, i), tb.Cmp("<", i, tb.Arith("+", base, n))),
					tb.Eq(tb.Select(na, i), tb.Select(srcArr, tb.Arith("+", E.slcOff(add), tb.Arith("-", i, base)))))),
				// in place: everything outside the appended window unchanged
				tb.Implies(fits, tb.Forall([]*Term{i}, tb.Implies(tb.Or(tb.Cmp("<", i, base), tb.Cmp(">=", i, tb.Arith("+", base, n))),
					tb.Eq(tb.Select(na, i), tb.Select(oldDst, i))))),
				// moved: prefix copied
				tb.Implies(tb.Not(fits), tb.Forall([]*Term{i}, tb.Implies(tb.And(tb.Cmp("<=", tb.Int(0), i), tb.Cmp("<", i, E.slcLen(s))),
					tb.Eq(tb.Select(na, i), tb.Select(oldDst, tb.Arith("+", E.slcOff(s), i))))))))
		}
		content = na
	}
	if !fr.spec {
		E.addFact(st, tb.Cmp(">=", newCap, newLen))
	}
	E.set(st, ak, tb.Store(ah, resArr, content))
	return E.mkSlice(resArr, resOff, newLen, resCap)
}

func (E *Engine) copyBuiltin(fr *Frame, st *State, cc *ssa.CallCommon, args []Val, instr ssa.Instruction) Val {
	tb := E.tb
	dst := args[0].(*Term)
	stp, ok := types.Unalias(E.subst(cc.Args[0].Type(), fr.tenv)).Underlying().(*types.Slice)
	if !ok {
		E.fail("copy into %s", cc.Args[0].Type())
	}
	if _, ok := types.Unalias(E.subst(cc.Args[1].Type(), fr.tenv)).Underlying().(*types.Slice); !ok {
		E.fail("copy from %s unsupported", cc.Args[1].Type())
	}
	src := args[1].(*Term)
	es := E.sortOf(stp.Elem(), fr.tenv)
	ak, aks := E.arrKey(stp.Elem(), fr.tenv)
	ah := E.get(st, ak, aks)
	n := tb.Ite(tb.Cmp("<", E.slcLen(dst), E.slcLen(src)), E.slcLen(dst), E.slcLen(src))
	na := tb.Fresh("arr", ArraySort(SInt, es))
	i := tb.BVar("i", SInt)
	oldDst := tb.Select(ah, E.slcArr(dst))
	srcArr := tb.Select(ah, E.slcArr(src))
	if fr.spec {
		E.fail("copy in specification")
	}
	E.addFact(st, tb.And(
		tb.Forall([]*Term{i}, tb.Implies(tb.And(tb.Cmp("<=", tb.Int(0), i), tb.Cmp("<", i, n)),
			tb.Eq(tb.Select(na, tb.Arith("+", E.slcOff(dst), i)), tb.Select(srcArr, tb.Arith("+", E.slcOff(src), i))))),
		tb.Forall([]*Term{i}, tb.Implies(tb.Or(tb.Cmp("<", i, E.slcOff(dst)), tb.Cmp(">=", i, tb.Arith("+", E.slcOff(dst), n))),
			tb.Eq(tb.Select(na, i), tb.Select(oldDst, i))))))
	E.set(st, ak, tb.Ite(tb.Eq(n, tb.Int(0)), ah, tb.Store(ah, E.slcArr(dst), na)))
	return n
}

// sliceCore: the slice type behind t - t's underlying type, or for a type parameter constrained by ~[]E
// the slice type of that constraint.
func sliceCore(t types.Type) *types.Slice {
	t = types.Unalias(t)
	if st, ok := t.Underlying().(*types.Slice); ok {
		return st
	}
	if tp, ok := t.(*types.TypeParam); ok {
		if iface, ok := tp.Constraint().Underlying().(*types.Interface); ok {
			for i := 0; i < iface.NumEmbeddeds(); i++ {
				switch e := types.Unalias(iface.EmbeddedType(i)).(type) {
				case *types.Union:
					for j := 0; j < e.Len(); j++ {
						if st, ok := e.Term(j).Type().Underlying().(*types.Slice); ok {
							return st
						}
					}
				default:
					if st, ok := e.Underlying().(*types.Slice); ok {
						return st
					}
				}
			}
		}
	}
	return nil
}
