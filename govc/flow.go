package main

import (
	"fmt"
	"go/token"
	"go/types"
	"strings"

	"golang.org/x/tools/go/ssa"
)

// ---------------------------------------------------------------------------------------------
// Flow obligations ("frame" back end, DESIGN §2.8): statements of the form "on every path from A to B
// the code passes through C", decided on the SSA control-flow graph of the real function. Used where
// the property is a release / hand-off discipline inside an event loop that the SMT back end does
// not model (select, go, channels).
// ---------------------------------------------------------------------------------------------

type FlowCheck struct {
	Property string   `json:"property"`
	Name     string   `json:"name"`
	Func     string   `json:"func"`
	From     []string `json:"from"`
	Until    []string `json:"until"`
	Through  []string `json:"through"`
	What     string   `json:"what"`
	// Mode "absent-ok": the obligation holds when no instruction matches From (the discipline is about
	// what must follow such an instruction, if there is one).
	Mode string `json:"mode,omitempty"`
}

type flowResult struct {
	fc   FlowCheck
	ok   bool
	err  string
	path string
	// sites: how many start points have a violating path (a listed finding names this number, so that a
	// further violating site in the same function is still reported)
	sites int
}

// valueName: the source-level name behind an SSA value, if any.
func valueName(fn *ssa.Function, v ssa.Value) string {
	switch t := v.(type) {
	case *ssa.Parameter:
		return t.Name()
	case *ssa.FreeVar:
		return t.Name()
	case *ssa.Alloc:
		return t.Comment
	case *ssa.Global:
		return t.Name()
	case *ssa.FieldAddr:
		if pt, ok := t.X.Type().Underlying().(*types.Pointer); ok {
			if st, ok := pt.Elem().Underlying().(*types.Struct); ok {
				return st.Field(t.Field).Name()
			}
		}
	case *ssa.UnOp:
		if t.Op == token.MUL {
			return valueName(fn, t.X)
		}
	case *ssa.ChangeType:
		return valueName(fn, t.X)
	case *ssa.Call:
		if f := t.Call.StaticCallee(); f != nil {
			return f.Name() + "()"
		}
	}
	// a debug reference naming this value
	for _, b := range fn.Blocks {
		for _, in := range b.Instrs {
			if d, ok := in.(*ssa.DebugRef); ok && d.X == v && d.Object() != nil {
				return d.Object().Name()
			}
		}
	}
	return ""
}

func matchSpec(fn *ssa.Function, in ssa.Instruction, spec string, selSend map[*ssa.BasicBlock]bool) bool {
	kind, arg := spec, ""
	if i := strings.Index(spec, ":"); i >= 0 {
		kind, arg = spec[:i], spec[i+1:]
	}
	switch kind {
	case "entry":
		return len(fn.Blocks) > 0 && len(fn.Blocks[0].Instrs) > 0 && in == fn.Blocks[0].Instrs[0]
	case "return":
		_, ok := in.(*ssa.Return)
		return ok
	case "send":
		s, ok := in.(*ssa.Send)
		return ok && valueName(fn, s.Chan) == arg
	case "recv":
		u, ok := in.(*ssa.UnOp)
		return ok && u.Op == token.ARROW && valueName(fn, u.X) == arg
	case "store-field":
		s, ok := in.(*ssa.Store)
		if !ok {
			return false
		}
		fa, ok := s.Addr.(*ssa.FieldAddr)
		return ok && valueName(fn, fa) == arg
	case "select-recv":
		// the block entered when a select chose the receive from the named channel
		return false
	case "callvar":
		c, ok := in.(*ssa.Call)
		return ok && !c.Call.IsInvoke() && c.Call.StaticCallee() == nil && valueName(fn, c.Call.Value) == arg
	case "call":
		if c, ok := in.(ssa.CallInstruction); ok {
			if f := c.Common().StaticCallee(); f != nil {
				return originOf(f).Name() == arg
			}
			if c.Common().IsInvoke() {
				return c.Common().Method.Name() == arg
			}
		}
		return false
	case "call-now":
		// like call, but only a call executed at this point (not a defer or go statement)
		if c, ok := in.(*ssa.Call); ok {
			if f := c.Common().StaticCallee(); f != nil {
				return originOf(f).Name() == arg
			}
			if c.Common().IsInvoke() {
				return c.Common().Method.Name() == arg
			}
		}
		return false
	case "go-captures":
		g, ok := in.(*ssa.Go)
		if !ok {
			return false
		}
		if mc, ok := g.Call.Value.(*ssa.MakeClosure); ok {
			for _, b := range mc.Bindings {
				if valueName(fn, b) == arg {
					return true
				}
			}
		}
		return false
	case "map-range-store-field":
		// a store to the named field inside a loop that ranges over a Go map (iteration order unspecified)
		st, ok := in.(*ssa.Store)
		if !ok {
			return false
		}
		fa, ok := st.Addr.(*ssa.FieldAddr)
		if !ok || valueName(fn, fa) != arg {
			return false
		}
		return inMapRangeLoop(fn, in.Block())
	case "map-range-append":
		// an append to the named local slice (or ".Field") inside a loop that ranges over a Go map
		c, ok := in.(*ssa.Call)
		if !ok {
			return false
		}
		bi, ok := c.Call.Value.(*ssa.Builtin)
		if !ok || bi.Name() != "append" || len(c.Call.Args) == 0 {
			return false
		}
		return rootName(fn, c.Call.Args[0], 0) == arg && inMapRangeLoop(fn, in.Block())
	case "uses-var":
		// an instruction that consumes the named slice: hands it to a call (other than len, cap, append or a
		// sorting function), returns it, stores it, indexes, slices or ranges over it
		isVar := func(v ssa.Value) bool { return rootName(fn, v, 0) == arg }
		switch t := in.(type) {
		case *ssa.Return:
			for _, r := range t.Results {
				if isVar(r) {
					return true
				}
			}
		case *ssa.Store:
			// storing the grown slice back into the variable itself is not a use
			return isVar(t.Val) && rootName(fn, t.Addr, 0) != arg
		case *ssa.IndexAddr:
			return isVar(t.X)
		case *ssa.Index:
			return isVar(t.X)
		case *ssa.Range:
			return isVar(t.X)
		case *ssa.Slice:
			return false // a re-slice is followed through rootName
		case ssa.CallInstruction:
			c := t.Common()
			if bi, ok := c.Value.(*ssa.Builtin); ok {
				switch bi.Name() {
				case "len", "cap", "append":
					return false
				}
			}
			if f := c.StaticCallee(); f != nil && originOf(f).Pkg != nil {
				pk := originOf(f).Pkg.Pkg.Path()
				if pk == "sort" || ((pk == "slices" || strings.HasSuffix(pk, "/slices")) && strings.HasPrefix(originOf(f).Name(), "Sort")) {
					return false
				}
			}
			for _, a := range c.Args {
				if isVar(a) {
					return true
				}
			}
		}
		return false
	case "call-in-loop-over", "call-outside-loop-over":
		// a call of the function named before the second colon that lies inside (outside) a loop ranging
		// over the slice returned by the function named after it: "call-in-loop-over:callee:source"
		parts := strings.SplitN(arg, ":", 2)
		if len(parts) != 2 {
			return false
		}
		c, ok := in.(*ssa.Call)
		if !ok {
			return false
		}
		n := ""
		if f := c.Common().StaticCallee(); f != nil {
			n = originOf(f).Name()
		} else if c.Common().IsInvoke() {
			n = c.Common().Method.Name()
		}
		if n != parts[0] {
			return false
		}
		inside := inSliceLoopOverCall(fn, in.Block(), parts[1])
		return inside == (kind == "call-in-loop-over")
	case "literal-map-collect-call":
		// a call of a function literal of this function that returns a slice it collected while ranging over
		// a Go map, without sorting it
		c, ok := in.(*ssa.Call)
		return ok && isMapCollectingLiteralCall(fn, c)
	case "uses-literal-result", "sorts-literal-result":
		// an instruction that consumes (sorts) the result of such a call
		fromLit := func(v ssa.Value) bool {
			for d := 0; d < 4; d++ {
				switch t := v.(type) {
				case *ssa.Slice:
					v = t.X
					continue
				case *ssa.ChangeType:
					v = t.X
					continue
				}
				break
			}
			c, ok := v.(*ssa.Call)
			return ok && isMapCollectingLiteralCall(fn, c)
		}
		isSort := func(c *ssa.CallCommon) bool {
			f := c.StaticCallee()
			if f == nil || originOf(f).Pkg == nil {
				return false
			}
			pk := originOf(f).Pkg.Pkg.Path()
			return pk == "sort" || ((pk == "slices" || strings.HasSuffix(pk, "/slices")) && strings.HasPrefix(originOf(f).Name(), "Sort"))
		}
		switch t := in.(type) {
		case ssa.CallInstruction:
			c := t.Common()
			if bi, ok := c.Value.(*ssa.Builtin); ok {
				switch bi.Name() {
				case "len", "cap":
					return false
				}
			}
			any := false
			for _, a := range c.Args {
				if fromLit(a) {
					any = true
				}
			}
			if !any {
				return false
			}
			return isSort(c) == (kind == "sorts-literal-result")
		case *ssa.Return:
			if kind == "sorts-literal-result" {
				return false
			}
			for _, r := range t.Results {
				if fromLit(r) {
					return true
				}
			}
		case *ssa.Store:
			return kind == "uses-literal-result" && fromLit(t.Val)
		case *ssa.IndexAddr:
			return kind == "uses-literal-result" && fromLit(t.X)
		case *ssa.Index:
			return kind == "uses-literal-result" && fromLit(t.X)
		}
		return false
	case "store-field-not-from-call":
		// a store into the named field of anything but the direct result of a call of the named function
		parts := strings.SplitN(arg, ":", 2)
		if len(parts) != 2 {
			return false
		}
		st, ok := in.(*ssa.Store)
		if !ok {
			return false
		}
		fa, ok := st.Addr.(*ssa.FieldAddr)
		if !ok || valueName(fn, fa) != parts[0] {
			return false
		}
		if c, ok := st.Val.(*ssa.Call); ok {
			if f := c.Call.StaticCallee(); f != nil && originOf(f).Name() == parts[1] {
				return false
			}
		}
		return true
	case "store-field-from-call":
		// a store into the named field of the direct result of a call of the named function:
		// "store-field-from-call:SubjectAltNames:UnsortedList"
		parts := strings.SplitN(arg, ":", 2)
		if len(parts) != 2 {
			return false
		}
		st, ok := in.(*ssa.Store)
		if !ok {
			return false
		}
		fa, ok := st.Addr.(*ssa.FieldAddr)
		if !ok || valueName(fn, fa) != parts[0] {
			return false
		}
		c, ok := st.Val.(*ssa.Call)
		if !ok {
			return false
		}
		f := c.Call.StaticCallee()
		return f != nil && originOf(f).Name() == parts[1]
	case "call-on":
		// a call of the named function or method whose receiver (first argument) is the named variable:
		// "call-on:UnsortedList:sans"
		parts := strings.SplitN(arg, ":", 2)
		if len(parts) != 2 {
			return false
		}
		c, ok := in.(*ssa.Call)
		if !ok {
			return false
		}
		n := ""
		if f := c.Common().StaticCallee(); f != nil {
			n = originOf(f).Name()
		}
		if n != parts[0] || len(c.Common().Args) == 0 {
			return false
		}
		return rootName(fn, c.Common().Args[0], 0) == parts[1]
	case "map-range-call":
		// a call of the named function or method inside a loop that ranges over a Go map
		if c, ok := in.(*ssa.Call); ok {
			n := ""
			if f := c.Common().StaticCallee(); f != nil {
				n = originOf(f).Name()
			} else if c.Common().IsInvoke() {
				n = c.Common().Method.Name()
			}
			return n == arg && inMapRangeLoop(fn, in.Block())
		}
		return false
	case "sortvar":
		c, ok := in.(ssa.CallInstruction)
		if !ok {
			return false
		}
		f := c.Common().StaticCallee()
		if f == nil || originOf(f).Pkg == nil {
			return false
		}
		pk := originOf(f).Pkg.Pkg.Path()
		if !(pk == "sort" || ((pk == "slices" || strings.HasSuffix(pk, "/slices")) && strings.HasPrefix(originOf(f).Name(), "Sort"))) {
			return false
		}
		for _, a := range c.Common().Args {
			if rootName(fn, a, 0) == arg {
				return true
			}
		}
		return false
	case "sortfield":
		// a sorting call applied to (a load of) the named field
		c, ok := in.(ssa.CallInstruction)
		if !ok {
			return false
		}
		f := c.Common().StaticCallee()
		if f == nil || originOf(f).Pkg == nil {
			return false
		}
		pk := originOf(f).Pkg.Pkg.Path()
		if !(pk == "sort" || ((pk == "slices" || strings.HasSuffix(pk, "/slices")) && strings.HasPrefix(originOf(f).Name(), "Sort"))) {
			return false
		}
		if len(c.Common().Args) == 0 {
			return false
		}
		return derivesFromField(fn, c.Common().Args[0], arg, 0)
	case "select-send-branch":
		return selSend[in.Block()] && firstReal(in.Block()) == in
	case "select-recv-branch":
		// the first instruction of the block entered when a select chose the receive from the named channel
		return selectRecvBlocks(fn, arg)[in.Block()] && firstReal(in.Block()) == in
	case "select":
		_, ok := in.(*ssa.Select)
		return ok
	case "go-arg":
		// a go statement that is handed the named value as an argument (or captures it)
		g, ok := in.(*ssa.Go)
		if !ok {
			return false
		}
		for _, a := range g.Call.Args {
			if valueName(fn, a) == arg {
				return true
			}
		}
		if mc, ok := g.Call.Value.(*ssa.MakeClosure); ok {
			for _, b := range mc.Bindings {
				if valueName(fn, b) == arg {
					return true
				}
			}
		}
		return false
	case "append-to":
		// an append to the named local slice (or ".Field")
		c, ok := in.(*ssa.Call)
		if !ok {
			return false
		}
		bi, ok := c.Call.Value.(*ssa.Builtin)
		if !ok || bi.Name() != "append" || len(c.Call.Args) == 0 {
			return false
		}
		return rootName(fn, c.Call.Args[0], 0) == arg
	case "len-of-field":
		// len(x.Field) of the named field
		c, ok := in.(*ssa.Call)
		if !ok {
			return false
		}
		bi, ok := c.Call.Value.(*ssa.Builtin)
		if !ok || bi.Name() != "len" || len(c.Call.Args) != 1 {
			return false
		}
		return rootName(fn, c.Call.Args[0], 0) == "."+arg
	case "mapupdate":
		// a store into the named map (local, parameter or field)
		mu, ok := in.(*ssa.MapUpdate)
		return ok && valueName(fn, mu.Map) == arg
	case "maplookup":
		// a lookup in the named map
		lk, ok := in.(*ssa.Lookup)
		if !ok {
			return false
		}
		if _, isMap := lk.X.Type().Underlying().(*types.Map); !isMap {
			return false
		}
		return valueName(fn, lk.X) == arg
	case "store-var":
		// a store to the named local or captured variable
		st, ok := in.(*ssa.Store)
		if !ok {
			return false
		}
		switch a := st.Addr.(type) {
		case *ssa.Alloc:
			return a.Comment == arg
		case *ssa.FreeVar:
			return a.Name() == arg
		}
		return false
	}
	return false
}

func firstReal(b *ssa.BasicBlock) ssa.Instruction {
	if len(b.Instrs) > 0 {
		return b.Instrs[0]
	}
	return nil
}

// selectSendBlocks: blocks entered exactly when a select chose one of its send cases.
func selectSendBlocks(fn *ssa.Function) map[*ssa.BasicBlock]bool {
	out := map[*ssa.BasicBlock]bool{}
	for _, b := range fn.Blocks {
		for _, in := range b.Instrs {
			ifi, ok := in.(*ssa.If)
			if !ok {
				continue
			}
			bo, ok := ifi.Cond.(*ssa.BinOp)
			if !ok || bo.Op != token.EQL {
				continue
			}
			ex, ok := bo.X.(*ssa.Extract)
			if !ok || ex.Index != 0 {
				continue
			}
			sel, ok := ex.Tuple.(*ssa.Select)
			if !ok {
				continue
			}
			c, ok := bo.Y.(*ssa.Const)
			if !ok {
				continue
			}
			k := int(c.Int64())
			if k >= 0 && k < len(sel.States) && sel.States[k].Dir == types.SendOnly {
				out[b.Succs[0]] = true
			}
		}
	}
	return out
}

// runFlowCheck checks one flow obligation. A target "F$*" stands for the function literals of F (at any
// depth) that contain an instruction matching one of the obligation's non-trivial from/until points, so that
// the obligation does not depend on how many other literals F has; there must be at least one.
func runFlowCheck(P *Program, fc FlowCheck) flowResult {
	if strings.HasSuffix(fc.Func, "$*") {
		res := flowResult{fc: fc}
		parent, err := P.FindFunc(nil, strings.TrimSuffix(fc.Func, "$*"))
		if err != nil {
			res.err = err.Error()
			return res
		}
		var lits []*ssa.Function
		var walk func(f *ssa.Function)
		walk = func(f *ssa.Function) {
			for _, a := range f.AnonFuncs {
				lits = append(lits, a)
				walk(a)
			}
		}
		walk(parent)
		trivial := map[string]bool{"entry": true, "return": true, "select": true}
		n := 0
		for _, lit := range lits {
			sel := selectSendBlocks(lit)
			has := false
			for _, b := range lit.Blocks {
				for _, in := range b.Instrs {
					for _, sp := range append(append([]string{}, fc.From...), fc.Until...) {
						if !trivial[sp] && matchSpec(lit, in, sp, sel) {
							has = true
						}
					}
				}
			}
			if !has {
				continue
			}
			n++
			one := fc
			one.Func = lit.String()
			if r := runFlowCheckFn(P, one, lit); !r.ok {
				r.fc = fc
				return r
			}
		}
		if n == 0 {
			res.err = "contract-target-missing: no function literal of " + parent.String() + " contains the from/until points"
			return res
		}
		res.ok = true
		return res
	}
	fn, err := P.FindFunc(nil, fc.Func)
	if err != nil {
		return flowResult{fc: fc, err: err.Error()}
	}
	return runFlowCheckFn(P, fc, fn)
}

func runFlowCheckFn(P *Program, fc FlowCheck, fn *ssa.Function) flowResult {
	res := flowResult{fc: fc}
	if len(fn.Blocks) == 0 {
		res.err = "function has no body"
		return res
	}
	selSend := selectSendBlocks(fn)
	matchAny := func(in ssa.Instruction, specs []string) bool {
		for _, s := range specs {
			if matchSpec(fn, in, s, selSend) {
				return true
			}
		}
		return false
	}
	type pos struct {
		b *ssa.BasicBlock
		i int
	}
	var starts []pos
	for _, b := range fn.Blocks {
		for i, in := range b.Instrs {
			if matchAny(in, fc.From) {
				starts = append(starts, pos{b, i})
			}
		}
	}
	if len(starts) == 0 {
		if fc.Mode == "absent-ok" || fc.Mode == "never-absent-ok" {
			res.ok = true
			return res
		}
		res.err = "contract-target-missing: no instruction matches from=" + strings.Join(fc.From, ",")
		return res
	}
	// the check must not be vacuous: some through point must exist in the function
	anyThrough := false
	for _, b := range fn.Blocks {
		for _, in := range b.Instrs {
			if matchAny(in, fc.Through) {
				anyThrough = true
			}
		}
	}
	if fc.Mode == "never" || fc.Mode == "never-absent-ok" {
		// "from" must never be followed by "until": there is nothing to pass through, but the "until"
		// point must exist in the function (otherwise the obligation is about something else)
		anyUntil := false
		for _, b := range fn.Blocks {
			for _, in := range b.Instrs {
				if matchAny(in, fc.Until) {
					anyUntil = true
				}
			}
		}
		if len(fc.Through) > 0 {
			// in this mode "through" is not a set of points to pass: it names the witness that shows the
			// obligation is about this function (the good form of what "until" is the bad form of)
			if !anyThrough {
				res.err = "contract-target-missing: no instruction matches witness=" + strings.Join(fc.Through, ",")
				return res
			}
		} else if !anyUntil {
			res.err = "contract-target-missing: no instruction matches until=" + strings.Join(fc.Until, ",")
			return res
		}
	} else if !anyThrough && fc.Mode != "absent-ok" {
		res.err = "contract-target-missing: no instruction matches through=" + strings.Join(fc.Through, ",")
		return res
	}
	for _, st := range starts {
		// forward search from the instruction after the start, never crossing a through point
		seen := map[pos]bool{}
		type item struct {
			p     pos
			trail []int
		}
		work := []item{{pos{st.b, st.i + 1}, []int{st.b.Index}}}
		for len(work) > 0 {
			it := work[len(work)-1]
			work = work[:len(work)-1]
			p := it.p
			if seen[p] {
				continue
			}
			seen[p] = true
			if p.i >= len(p.b.Instrs) {
				continue
			}
			in := p.b.Instrs[p.i]
			if fc.Mode != "never" && fc.Mode != "never-absent-ok" && matchAny(in, fc.Through) {
				continue
			}
			if matchAny(in, fc.Until) {
				var lines []string
				for _, bi := range it.trail {
					blk := fn.Blocks[bi]
					lines = append(lines, fmt.Sprintf("b%d@%s", bi, P.Pos(firstPos(blk))))
				}
				if res.path == "" {
					res.path = fmt.Sprintf("from %s at %s to %s at %s without passing through {%s}: %s", strings.Join(fc.From, ","), P.Pos(st.b.Instrs[st.i].Pos()),
						strings.Join(fc.Until, ","), P.Pos(in.Pos()), strings.Join(fc.Through, ","), strings.Join(lines, " -> "))
				}
				res.sites++
				work = nil
				continue
			}
			switch in.(type) {
			case *ssa.If, *ssa.Jump:
				for _, s := range p.b.Succs {
					work = append(work, item{pos{s, 0}, append(append([]int{}, it.trail...), s.Index)})
				}
			case *ssa.Return, *ssa.Panic:
			default:
				work = append(work, item{pos{p.b, p.i + 1}, it.trail})
			}
		}
	}
	res.ok = res.sites == 0
	return res
}

func derivesFromField(fn *ssa.Function, v ssa.Value, field string, depth int) bool {
	if depth > 6 {
		return false
	}
	switch t := v.(type) {
	case *ssa.MakeInterface:
		return derivesFromField(fn, t.X, field, depth+1)
	case *ssa.ChangeType:
		return derivesFromField(fn, t.X, field, depth+1)
	case *ssa.Convert:
		return derivesFromField(fn, t.X, field, depth+1)
	case *ssa.UnOp:
		if t.Op == token.MUL {
			if fa, ok := t.X.(*ssa.FieldAddr); ok {
				return valueName(fn, fa) == field
			}
		}
	case *ssa.Slice:
		return derivesFromField(fn, t.X, field, depth+1)
	}
	return false
}

// inMapRangeLoop: the block lies in a natural loop whose header advances an iterator over a Go map.
func inMapRangeLoop(fn *ssa.Function, blk *ssa.BasicBlock) bool {
	for _, h := range fn.Blocks {
		isMapHeader := false
		for _, in := range h.Instrs {
			if nx, ok := in.(*ssa.Next); ok && !nx.IsString {
				if r, ok := nx.Iter.(*ssa.Range); ok {
					if _, isMap := types.Unalias(r.X.Type()).Underlying().(*types.Map); isMap {
						isMapHeader = true
					}
				}
			}
		}
		if !isMapHeader {
			continue
		}
		// natural loop of every back edge into h
		for _, p := range h.Preds {
			if !h.Dominates(p) {
				continue
			}
			seen := map[*ssa.BasicBlock]bool{h: true}
			work := []*ssa.BasicBlock{p}
			for len(work) > 0 {
				b := work[len(work)-1]
				work = work[:len(work)-1]
				if seen[b] {
					continue
				}
				seen[b] = true
				work = append(work, b.Preds...)
			}
			if seen[blk] && blk != h {
				return true
			}
		}
	}
	return false
}

// selectRecvBlocks: blocks entered exactly when a select chose the receive from the named channel.
func selectRecvBlocks(fn *ssa.Function, ch string) map[*ssa.BasicBlock]bool {
	out := map[*ssa.BasicBlock]bool{}
	for _, b := range fn.Blocks {
		for _, in := range b.Instrs {
			ifi, ok := in.(*ssa.If)
			if !ok {
				continue
			}
			bo, ok := ifi.Cond.(*ssa.BinOp)
			if !ok || bo.Op != token.EQL {
				continue
			}
			ex, ok := bo.X.(*ssa.Extract)
			if !ok || ex.Index != 0 {
				continue
			}
			sel, ok := ex.Tuple.(*ssa.Select)
			if !ok {
				continue
			}
			c, ok := bo.Y.(*ssa.Const)
			if !ok {
				continue
			}
			k := int(c.Int64())
			if k >= 0 && k < len(sel.States) && sel.States[k].Dir == types.RecvOnly && valueName(fn, sel.States[k].Chan) == ch {
				out[b.Succs[0]] = true
			}
		}
	}
	return out
}

// inSliceLoopOverCall: the block lies in a natural loop that ranges over the slice returned by a call of the
// named function (the loop's header compares its index with the length of that slice).
func inSliceLoopOverCall(fn *ssa.Function, blk *ssa.BasicBlock, source string) bool {
	fromSource := func(v ssa.Value) bool {
		c, ok := v.(*ssa.Call)
		if !ok {
			return false
		}
		f := c.Call.StaticCallee()
		return f != nil && originOf(f).Name() == source
	}
	for _, h := range fn.Blocks {
		isHeader := false
		for _, in := range h.Instrs {
			bo, ok := in.(*ssa.BinOp)
			if !ok || bo.Op != token.LSS {
				continue
			}
			if lc, ok := bo.Y.(*ssa.Call); ok {
				if bi, ok := lc.Call.Value.(*ssa.Builtin); ok && bi.Name() == "len" && len(lc.Call.Args) == 1 && fromSource(lc.Call.Args[0]) {
					isHeader = true
				}
			}
		}
		if !isHeader {
			continue
		}
		for _, p := range h.Preds {
			if !h.Dominates(p) {
				continue
			}
			seen := map[*ssa.BasicBlock]bool{h: true}
			work := []*ssa.BasicBlock{p}
			for len(work) > 0 {
				b := work[len(work)-1]
				work = work[:len(work)-1]
				if seen[b] {
					continue
				}
				seen[b] = true
				work = append(work, b.Preds...)
			}
			if seen[blk] && blk != h {
				return true
			}
		}
	}
	return false
}

// isMapCollectingLiteralCall: c calls a function literal of fn that appends to a slice inside a loop ranging
// over a Go map, does not sort that slice, and returns it.
func isMapCollectingLiteralCall(fn *ssa.Function, c *ssa.Call) bool {
	lit := c.Call.StaticCallee()
	if lit == nil || lit.Parent() != fn || lit.Blocks == nil {
		return false
	}
	collected := map[string]bool{}
	sorted := map[string]bool{}
	for _, b := range lit.Blocks {
		for _, in := range b.Instrs {
			call, ok := in.(*ssa.Call)
			if !ok {
				continue
			}
			if bi, ok := call.Call.Value.(*ssa.Builtin); ok && bi.Name() == "append" && len(call.Call.Args) > 0 && inMapRangeLoop(lit, b) {
				if n := rootName(lit, call.Call.Args[0], 0); n != "" {
					collected[n] = true
				}
			}
			if f := call.Call.StaticCallee(); f != nil && originOf(f).Pkg != nil {
				pk := originOf(f).Pkg.Pkg.Path()
				if pk == "sort" || ((pk == "slices" || strings.HasSuffix(pk, "/slices")) && strings.HasPrefix(originOf(f).Name(), "Sort")) {
					for _, a := range call.Call.Args {
						sorted[rootName(lit, a, 0)] = true
					}
				}
			}
		}
	}
	for _, b := range lit.Blocks {
		for _, in := range b.Instrs {
			if r, ok := in.(*ssa.Return); ok {
				for _, v := range r.Results {
					if n := rootName(lit, v, 0); collected[n] && !sorted[n] {
						return true
					}
				}
			}
		}
	}
	return false
}
