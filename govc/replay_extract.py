#!/opt/veriftools/pyvenv/bin/python3
"""Turn a counterexample model of an obligation into a Go test that replays it on the real code.

usage: replay_extract.py <query.smt2> <layout.json> <out_test.go>

layout.json (written by govc): package name, imports, harness function, parameter layouts
(how each Go value is laid out in the SMT encoding) and the table of string literals.
The solver is re-run here through the z3 Python API so that the model can be evaluated term by term.
"""
import json
import sys

import z3


class Ctx:
    def __init__(self, model, layout):
        self.m = model
        self.layout = layout
        self.decls = {}
        for d in model.decls():
            self.decls[d.name()] = d
        self.objs = {}       # (gotype, refvalue str) -> var name
        self.decl_lines = []  # object declarations
        self.assign_lines = []
        self.universe = {}   # gotype -> list of go exprs
        self.strtext = {}
        self.nobj = 0
        self.str_sort = None
        # reverse table for string literals
        for name, text in layout.get("strlits", {}).items():
            d = self.decls.get(name)
            if d is not None:
                v = model.eval(d(), model_completion=True)
                self.strtext[str(v)] = text
                self.str_sort = v.sort()

    def const(self, name):
        d = self.decls.get(name)
        if d is None or d.arity() != 0:
            return None
        return d()

    def func(self, name):
        return self.decls.get(name)

    def ev(self, t):
        return self.m.eval(t, model_completion=True)

    def add_universe(self, gotype, expr):
        l = self.universe.setdefault(gotype, [])
        if expr not in l:
            l.append(expr)

    # ---- strings ----
    def go_string(self, v):
        key = str(v)
        if key in self.strtext:
            return self.strtext[key]
        n = 0
        f = self.func("strlen")
        if f is not None:
            try:
                n = self.ev(f(v)).as_long()
            except Exception:
                n = 0
        base = "s%d" % len(self.strtext)
        if 0 < n <= 256:
            base = (base + "x" * n)[:n]
        # keep distinct values distinct
        while base in self.strtext.values():
            base = base + "_"
        self.strtext[key] = base
        return base

    # ---- values ----
    def value(self, l, t):
        """Go expression for the value of term t with layout l."""
        k = l["k"]
        go = l.get("go", "")
        if t is None:
            return self.zero(l)
        if k == "bool":
            v = self.ev(t)
            e = "true" if z3.is_true(v) else "false"
            return self.conv(go, "bool", e)
        if k == "int":
            v = self.ev(t)
            try:
                n = v.as_long()
            except Exception:
                n = 0
            lo, hi = l.get("lo"), l.get("hi")
            if lo is not None and (n < int(lo) or n > int(hi)):
                n = 0
            e = self.conv(go, l.get("basic", "int"), str(n))
            self.add_universe(go, e)
            return e
        if k == "float":
            return self.conv(go, "float64", "0")
        if k == "string":
            v = self.ev(t)
            e = self.conv(go, "string", json.dumps(self.go_string(v)))
            self.add_universe(go, e)
            return e
        if k == "ptr":
            v = self.ev(t)
            null = self.const("null")
            if null is not None and str(self.ev(null)) == str(v):
                self.add_universe(go, "nil")
                return "nil"
            if null is None:
                return "nil"
            key = (go, str(v))
            if key in self.objs:
                return self.objs[key]
            self.nobj += 1
            name = "o%d" % self.nobj
            self.objs[key] = name
            el = l["elem"]
            self.decl_lines.append("%s := new(%s)" % (name, el["go"]))
            self.add_universe(go, name)
            self.add_universe(go, "nil")
            if el["k"] == "structref":
                self.fill_struct(name, el, v)
            elif el["k"] in ("bool", "int", "string") and el.get("cell"):
                c = self.const(el["cell"] + "@1")
                if c is not None:
                    self.assign_lines.append("*%s = %s" % (name, self.value(el, z3.Select(c, v))))
            return name
        if k == "structval":
            parts = []
            for f in (l.get("fields") or []):
                if not f.get("settable", True):
                    continue
                acc = self.accessor(t.sort(), f["acc"]) if hasattr(t, "sort") else None
                if acc is None:
                    continue
                parts.append("%s: %s" % (f["name"], self.value(f["l"], acc(t))))
            e = "%s{%s}" % (go, ", ".join(parts))
            self.add_universe(go, e)
            return e
        if k == "slice":
            v = self.ev(t)
            srt = v.sort()
            arrf, offf, lenf = self.accessor(srt, "s_arr"), self.accessor(srt, "s_off"), self.accessor(srt, "s_len")
            n = self.ev(lenf(v)).as_long()
            arr = self.ev(arrf(v))
            null = self.const("null")
            if n == 0:
                if null is not None and str(self.ev(null)) == str(arr):
                    return "nil"
                return "%s{}" % go
            if n > 64:
                raise ValueError("slice too long for a replay: %d" % n)
            heap = self.const(l["arr"] + "@1")
            off = self.ev(offf(v)).as_long()
            elems = []
            for i in range(n):
                if heap is None:
                    elems.append(self.zero(l["elem"]))
                else:
                    elems.append(self.value(l["elem"], z3.Select(z3.Select(heap, arr), z3.IntVal(off + i))))
            return "%s{%s}" % (go, ", ".join(elems))
        if k == "map":
            v = self.ev(t)
            null = self.const("null")
            if null is None or str(self.ev(null)) == str(v):
                return "nil"
            key = (go, str(v))
            if key in self.objs:
                return self.objs[key]
            self.nobj += 1
            name = "m%d" % self.nobj
            self.objs[key] = name
            self.decl_lines.append("%s := %s{}" % (name, go))
            dom = self.const(l["dom"] + "@1")
            if dom is not None:
                ks = dom.sort().range().domain()
                for kv in self.candidates(ks, l["key"]):
                    if z3.is_true(self.ev(z3.Select(z3.Select(dom, v), kv))):
                        kexpr = self.value(l["key"], kv)
                        if "val" in l:
                            vh = self.const(l["val"] + "@1")
                            vexpr = self.value(l["elem"], z3.Select(z3.Select(vh, v), kv)) if vh is not None else self.zero(l["elem"])
                        else:
                            vexpr = "struct{}{}"
                        self.assign_lines.append("%s[%s] = %s" % (name, kexpr, vexpr))
            return name
        return self.zero(l)

    def candidates(self, sort, keylayout):
        """Candidate key values of a map: the model's universe for uninterpreted sorts, small ranges otherwise."""
        if sort.kind() == z3.Z3_UNINTERPRETED_SORT:
            u = self.m.get_universe(sort)
            return list(u) if u is not None else []
        if sort.kind() == z3.Z3_INT_SORT:
            return [z3.IntVal(i) for i in range(-2, 40)]
        if sort.kind() == z3.Z3_BOOL_SORT:
            return [z3.BoolVal(True), z3.BoolVal(False)]
        if sort.kind() == z3.Z3_DATATYPE_SORT and keylayout.get("k") == "structval":
            # cartesian product over field candidates (bounded)
            import itertools
            ctor = sort.constructor(0)
            doms = []
            for i in range(ctor.arity()):
                c = self.candidates(ctor.domain(i), {"k": "?"})[:6]
                if not c:
                    return []
                doms.append(c)
            out = []
            for combo in itertools.islice(itertools.product(*doms), 4000):
                out.append(ctor(*combo))
            return out
        return []

    def accessor(self, sort, name):
        if sort.kind() != z3.Z3_DATATYPE_SORT:
            return None
        for c in range(sort.num_constructors()):
            ctor = sort.constructor(c)
            for i in range(ctor.arity()):
                a = sort.accessor(c, i)
                if a.name() == name:
                    return a
        return None

    def fill_struct(self, name, el, ref):
        for f in (el.get("fields") or []):
            if not f.get("settable", True):
                continue
            fl = f["l"]
            if "sub" in f:
                sub = self.func(f["sub"])
                if sub is None or fl["k"] != "structref":
                    continue
                self.fill_struct(name + "." + f["name"], fl, self.ev(sub(ref)))
                continue
            heap = self.const(f["key"] + "@1")
            if heap is None:
                continue
            try:
                e = self.value(fl, z3.Select(heap, ref))
            except ValueError:
                raise
            if e != self.zero(fl):
                self.assign_lines.append("%s.%s = %s" % (name, f["name"], e))

    def conv(self, go, basic, e):
        if go in ("", basic):
            return e
        return "%s(%s)" % (go, e)

    def zero(self, l):
        k = l["k"]
        go = l.get("go", "")
        if k == "bool":
            return self.conv(go, "bool", "false")
        if k == "int":
            return self.conv(go, l.get("basic", "int"), "0")
        if k == "float":
            return self.conv(go, "float64", "0")
        if k == "string":
            return self.conv(go, "string", '""')
        if k in ("ptr", "slice", "map", "iface", "func"):
            return "nil"
        if k in ("structval", "structref"):
            return "%s{}" % go
        return "*new(%s)" % go


def main():
    query, layout_path, out = sys.argv[1], sys.argv[2], sys.argv[3]
    layout = json.load(open(layout_path))
    s = z3.Solver()
    s.set("timeout", 60000)
    s.from_file(query)
    r = s.check()
    if r != z3.sat:
        print("replay_extract: solver answered %s, no model" % r)
        sys.exit(3)
    ctx = Ctx(s.model(), layout)
    args = []
    try:
        for p in layout["params"]:
            c = ctx.const("in$" + p["name"])
            args.append(ctx.value(p["l"], c))
    except ValueError as e:
        print("replay_extract: %s" % e)
        sys.exit(4)
    body_text = "\n".join(ctx.decl_lines + ctx.assign_lines + args + [v for vs in ctx.universe.values() for v in vs] + list(ctx.universe.keys()))
    lines = []
    lines.append("//go:build verif\n")
    lines.append("package %s\n" % layout["package"])
    lines.append("import (")
    lines.append('\t"fmt"')
    lines.append('\t"runtime"')
    lines.append('\t"testing"')
    for alias, path in sorted(layout["imports"].items()):
        if alias == layout["verif"] or (alias + ".") in body_text:
            lines.append('\t%s "%s"' % (alias, path))
    lines.append(")\n")
    lines.append("func TestVerifReplay(t *testing.T) {")
    lines.append("\tdefer func() {")
    lines.append("\t\tswitch x := recover().(type) {")
    lines.append('\t\tcase nil:\n\t\t\tfmt.Println("VERIF-REPLAY: no-failure")')
    lines.append('\t\tcase %s.Failure:\n\t\t\tfmt.Println("VERIF-REPLAY: assertion-failed", x.Name)' % layout["verif"])
    lines.append('\t\tcase %s.PreconditionNotMet:\n\t\t\tfmt.Println("VERIF-REPLAY: precondition-not-met", x.Name)' % layout["verif"])
    lines.append('\t\tcase %s.NotExecutable:\n\t\t\tfmt.Println("VERIF-REPLAY: not-executable", x.What)' % layout["verif"])
    lines.append('\t\tcase runtime.Error:\n\t\t\tfmt.Println("VERIF-REPLAY: runtime-panic", x.Error())')
    lines.append('\t\tdefault:\n\t\t\tfmt.Println("VERIF-REPLAY: panic", x)')
    lines.append("\t\t}\n\t}()")
    for l in ctx.decl_lines:
        lines.append("\t" + l)
    for l in ctx.assign_lines:
        lines.append("\t" + l)
    for go, vals in sorted(ctx.universe.items()):
        if go and len(vals) > 0 and len(vals) <= 64:
            lines.append("\t%s.AddUniverse[%s](%s)" % (layout["verif"], go, ", ".join(vals)))
    for o in sorted(set(ctx.objs.values())):
        lines.append("\t_ = %s" % o)
    lines.append("\t%s(%s)" % (layout["harness"], ", ".join(args)))
    lines.append("}")
    open(out, "w").write("\n".join(lines) + "\n")
    print("replay_extract: wrote %s" % out)


if __name__ == "__main__":
    main()
