package main

import (
	"fmt"
	"go/types"
	"os"
	"sort"
	"strings"
)

func sortStrings(s []string) { sort.Strings(s) }

// State is one symbolic program state: a reachability condition and the current version of every
// heap array that has been touched. Heap arrays that were never touched are materialised on
// demand as the constant key@base.
type State struct {
	reach *Term
	heap  map[string]*Term
	base  int
}

func (s *State) clone() *State {
	n := &State{reach: s.reach, heap: make(map[string]*Term, len(s.heap)), base: s.base}
	for k, v := range s.heap {
		n.heap[k] = v
	}
	return n
}

func (E *Engine) newState() *State {
	E.nextBase++
	return &State{reach: E.tb.True(), heap: map[string]*Term{}, base: E.nextBase}
}

func (E *Engine) get(st *State, key string, s Sort) *Term {
	if t, ok := st.heap[key]; ok {
		return t
	}
	if old, ok := E.heapSorts[key]; ok && old != s {
		panic(fmt.Sprintf("heap key %s used at sorts %s and %s", key, old, s))
	}
	E.heapSorts[key] = s
	base := st.base
	if E.frozenKey[key] {
		// construction-only field (E12): one version for the whole execution
		base = 1
		E.note("construction-only field keeps its value across unknown calls (E12): " + strings.TrimPrefix(key, "F$"))
	}
	t := E.tb.Const(fmt.Sprintf("%s@%d", key, base), s)
	st.heap[key] = t
	if key != allocKey {
		if c := E.closed(t, E.tb.Const(fmt.Sprintf("%s@%d", allocKey, base), SInt)); c != nil {
			E.tb.AddTermAxiom("closed:"+t.atom, c, t)
		}
	}
	return t
}

// closed states heap closedness for one heap array: every reference stored in it is nil or refers
// to an object that exists at time clk. nil if the array holds no references.
func (E *Engine) closed(h *Term, clk *Term) *Term {
	tb := E.tb
	if !h.sort.IsArray() {
		return nil
	}
	ks, vs := h.sort.ArrayParts()
	if ks != SRef {
		return nil
	}
	p := tb.BVar("p", SRef)
	val := tb.Select(h, p)
	vars := []*Term{p}
	if vs.IsArray() {
		k2, v2 := vs.ArrayParts()
		q := tb.BVar("q", k2)
		val = tb.Select(val, q)
		vars = append(vars, q)
		vs = v2
	}
	switch vs {
	case SRef:
		return tb.Forall(vars, tb.Cmp("<=", E.birth(val), clk))
	case SSlc:
		return tb.Forall(vars, tb.Cmp("<=", E.birth(tb.App("s_arr", SRef, val)), clk))
	}
	return nil
}

func (E *Engine) set(st *State, key string, t *Term) {
	if _, ok := E.heapSorts[key]; !ok {
		E.heapSorts[key] = t.sort
	}
	st.heap[key] = t
}

// mergeStates joins states by if-then-else over their edge guards. guards[i] must imply states[i].reach.
func (E *Engine) mergeStates(states []*State, guards []*Term) *State {
	tb := E.tb
	if len(states) == 1 {
		n := states[0].clone()
		n.reach = guards[0]
		return n
	}
	sameBase := true
	for _, s := range states[1:] {
		if s.base != states[0].base {
			sameBase = false
		}
	}
	keys := map[string]bool{}
	for _, s := range states {
		for k := range s.heap {
			keys[k] = true
		}
	}
	if !sameBase {
		for k := range E.heapSorts {
			keys[k] = true
		}
	}
	out := &State{heap: map[string]*Term{}, base: states[0].base}
	if !sameBase {
		E.nextBase++
		out.base = E.nextBase
	}
	var ks []string
	for k := range keys {
		ks = append(ks, k)
	}
	sort.Strings(ks)
	for _, k := range ks {
		srt := E.heapSorts[k]
		v := E.get(states[len(states)-1], k, srt)
		for i := len(states) - 2; i >= 0; i-- {
			v = tb.Ite(guards[i], E.get(states[i], k, srt), v)
		}
		if k == allocKey {
			tb.noSyms[v] = true
		}
		out.heap[k] = v
	}
	out.reach = tb.Or(guards...)
	return out
}

// ---- heap keys ----

func (E *Engine) fieldKey(si *structInfo, i int) (string, Sort) {
	k := "F$" + si.name + "." + si.st.Field(i).Name()
	if _, seen := E.frozenKey[k]; !seen {
		E.frozenKey[k] = E.P.constructionOnly(si.st.Field(i))
		if os.Getenv("GOVC_DEBUG_FROZEN") != "" {
			f := si.st.Field(i)
			fmt.Fprintf(os.Stderr, "frozen? %s = %v (exported %v pkg %v source %v)\n", k, E.frozenKey[k], f.Exported(), f.Pkg(), E.P.sourcePkg[f.Pkg()])
		}
	}
	return k, ArraySort(SRef, si.fields[i].sort)
}

func (E *Engine) cellKey(s Sort) (string, Sort) {
	return "Cell$" + sanitize(string(s)), ArraySort(SRef, s)
}

// Heap arrays for slices and maps are keyed by the Go element / map type, so that containers of
// different Go types never alias (a map[TriggerReason]int is never a map[string]struct{}).
func (E *Engine) arrKey(elem types.Type, env TEnv) (string, Sort) {
	elem = E.subst(elem, env)
	return "Arr$" + typeName(types.Unalias(elem)), ArraySort(SRef, ArraySort(SInt, E.sortOf(elem, nil)))
}

func mapTypeName(mt *types.Map) string {
	return typeName(types.Unalias(mt.Key())) + "$" + typeName(types.Unalias(mt.Elem()))
}

func (E *Engine) mdomKey(mt *types.Map, env TEnv) (string, Sort) {
	mt = E.subst(mt, env).(*types.Map)
	return "Mdom$" + mapTypeName(mt), ArraySort(SRef, ArraySort(E.sortOf(mt.Key(), nil), SBool))
}

func (E *Engine) mvalKey(mt *types.Map, env TEnv) (string, Sort) {
	mt = E.subst(mt, env).(*types.Map)
	return "Mval$" + mapTypeName(mt), ArraySort(SRef, ArraySort(E.sortOf(mt.Key(), nil), E.sortOf(mt.Elem(), nil)))
}

// Allocation is modelled by birth dates: birth(r) is the (immutable) allocation time of the object
// r, clock is the time of the state. An object exists in a state iff birth(r) <= clock; a new
// object gets birth = clock+1. Every reference read from memory or received as input exists.
const allocKey = "clock"

func (E *Engine) clock(st *State) *Term {
	c := E.get(st, allocKey, SInt)
	if c.kind == kConst {
		E.tb.AddTermAxiom("clock-nonneg:"+c.atom, E.tb.Cmp(">=", c, E.tb.Int(0)), c)
	}
	return c
}

func (E *Engine) birth(r *Term) *Term {
	tb := E.tb
	b := tb.UF("birth", SInt, r)
	tb.AddAxiom("birth-null", tb.Eq(tb.App("birth", SInt, E.null()), tb.Int(0)), "birth")
	return b
}

// exists: r is nil or refers to an object allocated no later than state st.
func (E *Engine) exists(st *State, r *Term) *Term {
	return E.tb.Cmp("<=", E.birth(r), E.clock(st))
}

// subRef is the reference of a struct-typed field embedded in the object at p.
func (E *Engine) subRef(si *structInfo, i int, p *Term) *Term {
	n := "sub$" + si.name + "." + si.st.Field(i).Name()
	r := E.tb.UF(n, SRef, p)
	inv := "inv" + n
	E.tb.DeclFunc(inv, []Sort{SRef}, SRef)
	E.tb.DeclFunc("birth", []Sort{SRef}, SInt)
	x := E.tb.BVar("x", SRef)
	// sub-objects reached through different fields are different objects: each field has its own tag
	E.tb.DeclFunc("subtag", []Sort{SRef}, SInt)
	if E.subTag == nil {
		E.subTag = map[string]int64{}
	}
	if _, ok := E.subTag[n]; !ok {
		E.subTag[n] = int64(len(E.subTag) + 1)
	}
	if r.bound {
		E.tb.AddAxiom("inj:"+n, E.tb.Forall([]*Term{x}, E.tb.And(
			E.tb.Eq(E.tb.App("subtag", SInt, E.tb.App(n, SRef, x)), E.tb.Int(E.subTag[n])),
			E.tb.Eq(E.tb.App(inv, SRef, E.tb.App(n, SRef, x)), x),
			E.tb.Eq(E.tb.App("birth", SInt, E.tb.App(n, SRef, x)), E.tb.App("birth", SInt, x)),
			E.tb.Not(E.tb.Eq(E.tb.App(n, SRef, x), E.null())))), n)
	} else {
		// ground instance for this particular sub-object
		E.tb.AddTermAxiom(fmt.Sprintf("inj:%s#%d", n, r.id), E.tb.And(
			E.tb.Eq(E.tb.App("subtag", SInt, r), E.tb.Int(E.subTag[n])),
			E.tb.Eq(E.tb.App(inv, SRef, r), p),
			E.tb.Eq(E.tb.App("birth", SInt, r), E.tb.App("birth", SInt, p)),
			E.tb.Not(E.tb.Eq(r, E.null()))), r)
	}
	return r
}

// ---- addresses ----

type addrKind int

const (
	aField addrKind = iota // key[ref]
	aElem                  // key[ref][idx]
	aCell                  // key[ref]
)

type pathStep struct {
	si    *structInfo
	field int
}

type Addr struct {
	kind addrKind
	key  string
	ks   Sort // sort of the heap array
	ref  *Term
	idx  *Term
	path []pathStep
	typ  types.Type // Go type of the addressed location
}

func (E *Engine) loadRoot(st *State, a *Addr) *Term {
	h := E.get(st, a.key, a.ks)
	v := E.tb.Select(h, a.ref)
	if a.kind == aElem {
		v = E.tb.Select(v, a.idx)
	}
	return v
}

func (E *Engine) storeRoot(st *State, a *Addr, x *Term) {
	h := E.get(st, a.key, a.ks)
	if a.kind == aElem {
		inner := E.tb.Select(h, a.ref)
		E.set(st, a.key, E.tb.Store(h, a.ref, E.tb.Store(inner, a.idx, x)))
		return
	}
	E.set(st, a.key, E.tb.Store(h, a.ref, x))
}

func (E *Engine) loadAddr(st *State, a *Addr) *Term {
	v := E.loadRoot(st, a)
	for _, p := range a.path {
		v = E.field(p.si, v, p.field)
	}
	return v
}

func (E *Engine) storeAddr(st *State, a *Addr, x *Term) {
	if len(a.path) == 0 {
		E.storeRoot(st, a, x)
		return
	}
	root := E.loadRoot(st, a)
	var rec func(v *Term, i int) *Term
	rec = func(v *Term, i int) *Term {
		if i == len(a.path) {
			return x
		}
		p := a.path[i]
		return E.setField(p.si, v, p.field, rec(E.field(p.si, v, p.field), i+1))
	}
	E.storeRoot(st, a, rec(root, 0))
}

// loadObj loads a value of Go type t stored at reference p (p : *t).
func (E *Engine) loadObj(st *State, p *Term, t types.Type, env TEnv) *Term {
	t = E.subst(t, env)
	if si := E.structInfoOf(t, env); si != nil {
		if si.sort == SUnit {
			return E.unit()
		}
		args := make([]*Term, len(si.fields))
		for i := range si.fields {
			if isStruct(si.ftypes[i]) && E.structInfoOf(si.ftypes[i], env).sort != SUnit {
				args[i] = E.loadObj(st, E.subRef(si, i, p), si.ftypes[i], env)
			} else if isStruct(si.ftypes[i]) {
				args[i] = E.unit()
			} else {
				k, ks := E.fieldKey(si, i)
				args[i] = E.tb.Select(E.get(st, k, ks), p)
			}
		}
		return E.mkStruct(si, args)
	}
	if arr, ok := types.Unalias(t).Underlying().(*types.Array); ok {
		k, ks := E.arrKey(arr.Elem(), env)
		return E.tb.Select(E.get(st, k, ks), p)
	}
	k, ks := E.cellKey(E.sortOf(t, env))
	return E.tb.Select(E.get(st, k, ks), p)
}

// storeObj stores value v of Go type t at reference p.
func (E *Engine) storeObj(st *State, p *Term, t types.Type, v *Term, env TEnv) {
	t = E.subst(t, env)
	if si := E.structInfoOf(t, env); si != nil {
		if si.sort == SUnit {
			return
		}
		for i := range si.fields {
			fv := E.field(si, v, i)
			if isStruct(si.ftypes[i]) {
				if E.structInfoOf(si.ftypes[i], env).sort != SUnit {
					E.storeObj(st, E.subRef(si, i, p), si.ftypes[i], fv, env)
				}
			} else {
				k, ks := E.fieldKey(si, i)
				E.set(st, k, E.tb.Store(E.get(st, k, ks), p, fv))
			}
		}
		return
	}
	if arr, ok := types.Unalias(t).Underlying().(*types.Array); ok {
		k, ks := E.arrKey(arr.Elem(), env)
		E.set(st, k, E.tb.Store(E.get(st, k, ks), p, v))
		return
	}
	k, ks := E.cellKey(E.sortOf(t, env))
	E.set(st, k, E.tb.Store(E.get(st, k, ks), p, v))
}

// objKeys lists the heap keys an object of type t occupies (for frame computations).
func (E *Engine) objKeys(t types.Type, env TEnv, out map[string]bool) {
	t = E.subst(t, env)
	if si := E.structInfoOf(t, env); si != nil {
		for i := range si.fields {
			if isStruct(si.ftypes[i]) {
				E.objKeys(si.ftypes[i], env, out)
			} else {
				k, ks := E.fieldKey(si, i)
				E.heapSorts[k] = ks
				out[k] = true
			}
		}
		return
	}
	if arr, ok := types.Unalias(t).Underlying().(*types.Array); ok {
		k, ks := E.arrKey(arr.Elem(), env)
		E.heapSorts[k] = ks
		out[k] = true
		return
	}
	k, ks := E.cellKey(E.sortOf(t, env))
	E.heapSorts[k] = ks
	out[k] = true
}

// newRef allocates a fresh reference.
func (E *Engine) newRef(st *State, hint string, spec bool) *Term {
	r := E.tb.Fresh("&"+hint, SRef)
	c := E.clock(st)
	nc := E.tb.Arith("+", c, E.tb.Int(1))
	E.tb.noSyms[nc] = true
	if !spec {
		E.addFact(st, E.tb.Eq(E.birth(r), nc))
	}
	// an allocation is not a sub-object of another object
	E.tb.DeclFunc("subtag", []Sort{SRef}, SInt)
	E.tb.AddTermAxiom("subtag:"+r.atom, E.tb.Eq(E.tb.App("subtag", SInt, r), E.tb.Int(0)), r)
	E.set(st, allocKey, nc)
	return r
}

// ---- maps ----

func (E *Engine) mapDom(st *State, m *Term, mt *types.Map, env TEnv) *Term {
	key, ks := E.mdomKey(mt, env)
	k := E.sortOf(mt.Key(), env)
	d := E.tb.Select(E.get(st, key, ks), m)
	if m == E.null() {
		return E.tb.ConstArray(ArraySort(k, SBool), E.tb.False())
	}
	if m.kind == kConst && isAddrConst(m.atom) {
		return d // freshly allocated: never null
	}
	return E.tb.Ite(E.tb.Eq(m, E.null()), E.tb.ConstArray(ArraySort(k, SBool), E.tb.False()), d)
}

func (E *Engine) mapVal(st *State, m *Term, mt *types.Map, env TEnv) *Term {
	key, ks := E.mvalKey(mt, env)
	return E.tb.Select(E.get(st, key, ks), m)
}

func (E *Engine) mapLen(dom *Term) *Term {
	tb := E.tb
	if dom.op == "const-array" && dom.args[0].IsFalse() {
		return tb.Int(0)
	}
	if dom.op == "ite" {
		return tb.Ite(dom.args[0], E.mapLen(dom.args[1]), E.mapLen(dom.args[2]))
	}
	ks, _ := dom.sort.ArrayParts()
	n := "maplen$" + sanitize(string(ks))
	w := "mapwit$" + sanitize(string(ks))
	tb.DeclFunc(n, []Sort{dom.sort}, SInt)
	tb.DeclFunc(w, []Sort{dom.sort}, ks)
	ln := func(x *Term) *Term { return tb.App(n, SInt, x) }
	t := ln(dom)
	if dom.bound {
		// length of a map that depends on a quantified variable: fall back to quantified axioms
		d := tb.BVar("d", dom.sort)
		k := tb.BVar("k", ks)
		tb.AddAxiom("maplen-nonneg:"+n, tb.Forall([]*Term{d}, tb.Cmp(">=", ln(d), tb.Int(0))), n)
		tb.AddAxiom("maplen-pos:"+n, tb.Forall([]*Term{d, k}, tb.Implies(tb.Select(d, k), tb.Cmp(">", ln(d), tb.Int(0)))), n)
		return t
	}
	// ground instances of the cardinality axioms for this particular map value
	name := fmt.Sprintf("maplen#%d", t.id)
	k := tb.BVar("k", ks)
	w2 := "mapwit2$" + sanitize(string(ks))
	tb.DeclFunc(w2, []Sort{dom.sort}, ks)
	k2 := tb.BVar("k2", ks)
	wa, wb := tb.App(w, ks, dom), tb.App(w2, ks, dom)
	conj := []*Term{
		tb.Cmp(">=", t, tb.Int(0)),
		tb.Eq(tb.Eq(t, tb.Int(0)), tb.Not(tb.Select(dom, wa))),
		tb.Forall([]*Term{k}, tb.Implies(tb.Select(dom, k), tb.Cmp(">", t, tb.Int(0)))),
		// at least two elements iff two distinct keys exist
		tb.Implies(tb.Cmp(">=", t, tb.Int(2)), tb.And(tb.Select(dom, wa), tb.Select(dom, wb), tb.Not(tb.Eq(wa, wb)))),
		tb.Forall([]*Term{k, k2}, tb.Implies(tb.And(tb.Select(dom, k), tb.Select(dom, k2), tb.Not(tb.Eq(k, k2))), tb.Cmp(">=", t, tb.Int(2)))),
	}
	if dom.op == "store" {
		d0, key, val := dom.args[0], dom.args[1], dom.args[2]
		l0 := E.mapLen(d0)
		if val.IsTrue() {
			conj = append(conj, tb.Eq(t, tb.Arith("+", l0, tb.Ite(tb.Select(d0, key), tb.Int(0), tb.Int(1)))))
		} else if val.IsFalse() {
			conj = append(conj, tb.Eq(t, tb.Arith("-", l0, tb.Ite(tb.Select(d0, key), tb.Int(1), tb.Int(0)))))
		}
	}
	tb.AddTermAxiom(name, tb.And(conj...), t)
	return t
}
