package main

import (
	"fmt"
	"go/constant"
	"go/token"
	"go/types"
	"math/bits"
	"os"
	"strings"
	"time"

	"golang.org/x/tools/go/ssa"
)

// ---------------------------------------------------------------------------------------------
// Engine: symbolic execution of go/ssa producing one SMT query per obligation.
// ---------------------------------------------------------------------------------------------

type Val interface{}

type Tuple []Val

type Closure struct {
	fn   *ssa.Function
	bind []Val
	ref  *Term
}

type Iter struct {
	isMap  bool
	m      *Term // map ref
	ks, vs Sort
	visKey string // heap key of the visited set
	kt, vt types.Type
	str    *Term // string iteration (unsupported beyond havoc)
	instr  *ssa.Range
	mt     *types.Map
}

type Obligation struct {
	Name    string
	Kind    string // post | pre | assert | inv-init | inv-preserve | safe | cover | frame
	Fn      string
	Pos     string
	Goal    *Term
	Reach   *Term
	NFacts  int
	Harness string
	Cover   bool // cover obligations: reach must be satisfiable
	// result
	Result string // unsat(discharged) | sat | unknown | error
	Solver string
	WallMs int64
	Model  string
	Query  string
	Note   string
}

type Engine struct {
	P  *Program
	tb *TermBank

	facts   []fact
	obls    []*Obligation
	oblSeen map[string]int

	heapSorts   map[string]Sort
	nextBase    int
	structs     map[string]*structInfo
	anonStructs map[string]string
	typeIDs     map[string]int
	typeByID    map[int]types.Type
	strLitText  map[string]string

	harness      *Harness
	depth        int
	assumption   map[string]bool // assumptions actually used (evidence)
	inlined      map[string]bool
	usedCtr      map[string]bool
	funcsSeen    map[string]bool
	writeMemo    map[string]*writeSet
	logArgsMemo  map[*ssa.Function]map[ssa.Instruction]bool
	loopInfo     map[*ssa.Function]*loopInfo
	globalRefs   map[string]*Term
	errs         []string
	maxDepth     int
	noSafety     bool
	instrCount   int
	closureByRef map[*Term]*Closure
	requires     []*Term
	arithChecked map[*ssa.Function]bool
	iterCount    int
	retMemo      map[*ssa.Function]*retOrigin
	negMemo      map[*Term][]*Term
	ctxReach     *Term
	snaps        map[int]*State
	pureFns      map[*Term]bool
	cellClosure  map[*Term]*Closure
	locals       []*localObj
	escaped      map[*Term]bool
	escSeen      map[*Term]bool
	snapCount    int
	frozenKey    map[string]bool
	subTag       map[string]int64
	started      time.Time
}

func NewEngine(P *Program) *Engine {
	E := &Engine{P: P, tb: NewTermBank(),
		oblSeen: map[string]int{}, heapSorts: map[string]Sort{}, structs: map[string]*structInfo{}, anonStructs: map[string]string{},
		typeIDs: map[string]int{}, typeByID: map[int]types.Type{}, strLitText: map[string]string{},
		assumption: map[string]bool{}, inlined: map[string]bool{}, usedCtr: map[string]bool{}, funcsSeen: map[string]bool{},
		writeMemo: map[string]*writeSet{}, loopInfo: map[*ssa.Function]*loopInfo{}, globalRefs: map[string]*Term{}, maxDepth: 60,
		closureByRef: map[*Term]*Closure{}, retMemo: map[*ssa.Function]*retOrigin{}, negMemo: map[*Term][]*Term{}, snaps: map[int]*State{}, pureFns: map[*Term]bool{}, cellClosure: map[*Term]*Closure{}, escaped: map[*Term]bool{}, escSeen: map[*Term]bool{}, frozenKey: map[string]bool{}, arithChecked: map[*ssa.Function]bool{}}
	tb := E.tb
	tb.DeclSort(SRef)
	tb.DeclSort(SUnit)
	tb.DeclDatatype(SSlc, "mkslice", []dtField{{"s_arr", SRef}, {"s_off", SInt}, {"s_len", SInt}, {"s_cap", SInt}})
	tb.DeclDatatype(SIfc, "mkiface", []dtField{{"i_tag", SInt}, {"i_val", SRef}})
	u := tb.BVar("u", SUnit)
	tb.AddAxiom("unit", tb.Forall([]*Term{u}, tb.Eq(u, E.unit())), "")
	return E
}

type Frame struct {
	fn     *ssa.Function
	env    map[ssa.Value]Val
	tenv   TEnv
	parent *Frame
	ghost  bool // code from a contract file: no safety obligations
	spec   bool // inside a quantifier / Old: pure evaluation, no facts, no obligations
	defers []*ssa.Defer
	entry  *State // state on entry (Old in loop invariants)
	oldSt  *State // state before the call under contract (Old in contracts)
	path   string
	// contract use
	useMode        bool          // this frame executes a contract harness on behalf of a caller
	useTarget      *ssa.Function // the callee being summarised
	useResult      Val
	useSite        string
	useCallerGhost bool
	useIface       string // trusted interface-method contract being used: "<type>.<method>"
	// contract proof
	proveTarget *ssa.Function
	iters       map[ssa.Value]*Iter
	override    map[ssa.Value]Val // phi overrides while evaluating an invariant
	invOf       *Frame            // invariant evaluation: frame whose locals are referenced
	staleInv    map[*loop]bool    // loops whose written invariant no longer binds
}

type fact struct {
	guard, body *Term
	frame       bool // an automatic "everything that existed before is unchanged" fact (may be dropped by a query variant)
}

type abort struct{ msg string }

func (E *Engine) fail(format string, args ...interface{}) {
	panic(abort{fmt.Sprintf(format, args...)})
}

// addFrameFact: like addFact, for the automatic birth-based frame facts. One racing variant of
// every query leaves them out (fewer quantifiers; dropping facts is sound for a refutation).
func (E *Engine) addFrameFact(st *State, f *Term) {
	n := len(E.facts)
	E.addFact(st, f)
	for i := n; i < len(E.facts); i++ {
		E.facts[i].frame = true
	}
}

func (E *Engine) addFact(st *State, f *Term) {
	if f.IsTrue() {
		return
	}
	// quantified conjunctions are distributed so that every piece gets its own triggers
	if f.kind == kQuant || f.op == "and" || f.op == "or" || f.op == "=>" {
		for _, p := range E.splitGoal(f, 48) {
			E.facts = append(E.facts, fact{guard: E.absReach(st), body: p})
		}
		return
	}
	E.facts = append(E.facts, fact{guard: E.absReach(st), body: f})
}

// absReach: path condition from the start of the harness. Inside a call, states carry the path
// condition relative to the call's entry; ctxReach is the condition under which the call happens.
func (E *Engine) absReach(st *State) *Term {
	if E.ctxReach == nil {
		return st.reach
	}
	return E.tb.And(E.ctxReach, st.reach)
}

func (E *Engine) addObl(fr *Frame, st *State, kind, label string, goal *Term, pos token.Pos) {
	if fr != nil && fr.spec {
		return
	}
	if goal.IsTrue() || st.reach.IsFalse() {
		// trivially discharged; still recorded so that the count is stable
	}
	name := E.harness.Name + "#" + kind + ":" + label
	E.oblSeen[name]++
	if n := E.oblSeen[name]; n > 1 {
		name = fmt.Sprintf("%s~%d", name, n)
	}
	fnName := ""
	if fr != nil {
		fnName = fr.fn.String()
	}
	// every conjunct is its own query (its own name, result and counterexample)
	parts := E.splitGoal(goal, 24)
	for i, g := range parts {
		n := name
		if len(parts) > 1 {
			n = fmt.Sprintf("%s/%d", name, i+1)
		}
		E.obls = append(E.obls, &Obligation{Name: n, Kind: kind, Fn: fnName, Pos: E.P.Pos(pos), Goal: g, Reach: E.absReach(st), NFacts: len(E.facts), Harness: E.harness.Name})
	}
}

// splitGoal distributes a goal over its conjunctions: ∀x.(A ∧ B), P ⇒ (A ∧ B), P ∨ (A ∧ B).
func (E *Engine) splitGoal(g *Term, limit int) []*Term {
	tb := E.tb
	var out []*Term
	switch {
	case g.op == "and":
		for _, a := range g.args {
			out = append(out, E.splitGoal(a, limit)...)
		}
	case g.kind == kQuant && g.op == "forall":
		for _, p := range E.splitGoal(g.args[0], limit) {
			out = append(out, tb.Forall(g.qvars, p))
		}
	case g.op == "=>":
		for _, p := range E.splitGoal(g.args[1], limit) {
			out = append(out, tb.Implies(g.args[0], p))
		}
	case g.op == "or":
		// split on the disjunct that yields the most pieces
		idx, best := -1, 1
		for i, d := range g.args {
			if d.op == "and" || (d.kind == kQuant && d.op == "forall") || d.op == "=>" {
				if n := len(E.splitGoal(d, limit)); n > best {
					idx, best = i, n
				}
			}
		}
		if idx >= 0 {
			for _, p := range E.splitGoal(g.args[idx], limit) {
				ds := append([]*Term{}, g.args[:idx]...)
				ds = append(ds, p)
				ds = append(ds, g.args[idx+1:]...)
				out = append(out, tb.Or(ds...))
			}
		} else {
			out = []*Term{g}
		}
	default:
		out = []*Term{g}
	}
	if len(out) > limit || len(out) == 0 {
		return []*Term{g}
	}
	return out
}

func (fr *Frame) isSpec() bool { return fr.spec }

// safety emits a no-panic obligation for real (non-ghost) code.
func (E *Engine) safety(fr *Frame, st *State, what string, cond *Term, instr ssa.Instruction) {
	if fr.ghost || fr.spec || E.noSafety {
		return
	}
	if cond.IsTrue() {
		return
	}
	label := fmt.Sprintf("%s:%s@%s", shortFn(fr.fn), what, E.instrOrdinal(fr.fn, instr, what))
	E.addObl(fr, st, "safe", label, cond, instr.Pos())
	// after the check the execution continues only where it held
	E.addFact(st, cond)
}

func shortFn(fn *ssa.Function) string {
	s := fn.String()
	s = strings.ReplaceAll(s, "istio.io/istio/", "")
	return s
}

// instrOrdinal numbers instructions of one safety kind inside a function in block/instruction order,
// which is insensitive to renamed locals and to edits elsewhere in the file.
func (E *Engine) instrOrdinal(fn *ssa.Function, instr ssa.Instruction, what string) string {
	n := 0
	for _, b := range fn.Blocks {
		for _, in := range b.Instrs {
			if in == instr {
				return fmt.Sprint(n)
			}
			if sameSafetyClass(in, instr) {
				n++
			}
		}
	}
	return "?"
}

func sameSafetyClass(a, b ssa.Instruction) bool {
	return fmt.Sprintf("%T", a) == fmt.Sprintf("%T", b)
}

// ---------------------------------------------------------------------------------------------
// Function execution
// ---------------------------------------------------------------------------------------------

type retPoint struct {
	st   *State
	vals []Val
}

func (E *Engine) newFrame(fn *ssa.Function, parent *Frame, tenv TEnv) *Frame {
	fr := &Frame{fn: fn, env: map[ssa.Value]Val{}, tenv: tenv, parent: parent, iters: map[ssa.Value]*Iter{}}
	fr.ghost = E.P.IsGhost(fn)
	if parent != nil {
		fr.spec = parent.spec
		fr.path = parent.path
	}
	return fr
}

// execFunc runs fn's body from state st with the given arguments. It returns the merged results and
// state of all normally returning paths (reach=false if none returns).
func (E *Engine) execFunc(fr *Frame, st *State, args []Val) ([]Val, *State) {
	fn := fr.fn
	if len(fn.Blocks) == 0 {
		E.fail("execFunc: %s has no body", fn)
	}
	E.depth++
	defer func() { E.depth-- }()
	if E.depth > E.maxDepth {
		E.fail("inlining depth exceeded at %s", fn)
	}
	E.funcsSeen[fn.String()] = true
	for i, p := range fn.Params {
		if i < len(args) {
			fr.env[p] = args[i]
		}
	}
	// run the body with path conditions relative to the entry of this call
	entryReach := st.reach
	savedCtx := E.ctxReach
	E.ctxReach = E.absReach(st)
	st = st.clone()
	st.reach = E.tb.True()
	defer func() { E.ctxReach = savedCtx }()
	fr.entry = st.clone()
	li := E.loops(fn)

	type inEdge struct {
		st   *State
		cond *Term
		from *ssa.BasicBlock
	}
	in := map[*ssa.BasicBlock][]inEdge{}
	in[fn.Blocks[0]] = []inEdge{{st, st.reach, nil}}
	var rets []retPoint

	for _, b := range li.order {
		edges := in[b]
		if len(edges) == 0 {
			continue // unreachable
		}
		// merge incoming forward edges
		var sts []*State
		var gs []*Term
		for _, e := range edges {
			sts = append(sts, e.st)
			gs = append(gs, e.cond)
		}
		cur := E.mergeStates(sts, gs)
		if cur.reach.IsFalse() {
			continue
		}
		// phis
		phiVals := map[*ssa.Phi]Val{}
		for _, instr := range b.Instrs {
			phi, ok := instr.(*ssa.Phi)
			if !ok {
				break
			}
			var v Val
			first := true
			for i := len(edges) - 1; i >= 0; i-- {
				e := edges[i]
				idx := predIndex(b, e.from)
				if idx < 0 {
					E.fail("phi: predecessor not found in %s", fn)
				}
				x := E.value(fr, phi.Edges[idx])
				if first {
					v = x
					first = false
				} else {
					v = E.iteVal(e.cond, x, v)
				}
			}
			phiVals[phi] = v
		}
		for phi, v := range phiVals {
			fr.env[phi] = v
		}
		// loop header?
		if lp := li.byHeader[b]; lp != nil {
			E.enterLoop(fr, cur, lp, li)
		}
		// body
		ended := false
		for _, instr := range b.Instrs {
			if _, ok := instr.(*ssa.Phi); ok {
				continue
			}
			E.instrCount++
			if E.instrCount%2048 == 0 && !E.started.IsZero() && time.Since(E.started) > 4*time.Minute {
				E.fail("symbolic execution budget exceeded (4 minutes): split the harness")
			}
			switch t := instr.(type) {
			case *ssa.If:
				c := E.term(fr, t.Cond)
				tSucc, fSucc := b.Succs[0], b.Succs[1]
				E.edge(fr, cur, b, tSucc, E.tb.And(cur.reach, c), li, func(s *State, g *Term) { in[tSucc] = append(in[tSucc], inEdge{s, g, b}) })
				E.edge(fr, cur, b, fSucc, E.tb.And(cur.reach, E.tb.Not(c)), li, func(s *State, g *Term) { in[fSucc] = append(in[fSucc], inEdge{s, g, b}) })
				ended = true
			case *ssa.Jump:
				succ := b.Succs[0]
				E.edge(fr, cur, b, succ, cur.reach, li, func(s *State, g *Term) { in[succ] = append(in[succ], inEdge{s, g, b}) })
				ended = true
			case *ssa.Return:
				var vals []Val
				for _, r := range t.Results {
					vals = append(vals, E.value(fr, r))
				}
				rets = append(rets, retPoint{cur, vals})
				ended = true
			case *ssa.Panic:
				E.doPanic(fr, cur, t)
				ended = true
			default:
				E.exec(fr, cur, instr)
			}
			if ended || cur.reach.IsFalse() {
				break
			}
		}
	}
	if len(rets) == 0 {
		out := st.clone()
		out.reach = E.tb.False()
		_ = entryReach
		res := make([]Val, fn.Signature.Results().Len())
		for i := range res {
			res[i] = E.zero(fn.Signature.Results().At(i).Type(), fr.tenv)
		}
		return res, out
	}
	var sts []*State
	var gs []*Term
	for _, r := range rets {
		sts = append(sts, r.st)
		gs = append(gs, r.st.reach)
	}
	out := E.mergeStates(sts, gs)
	out.reach = E.tb.And(entryReach, out.reach)
	n := len(rets[0].vals)
	res := make([]Val, n)
	for i := 0; i < n; i++ {
		v := rets[len(rets)-1].vals[i]
		for j := len(rets) - 2; j >= 0; j-- {
			v = E.iteVal(rets[j].st.reach, rets[j].vals[i], v)
		}
		res[i] = v
	}
	return res, out
}

func predIndex(b, from *ssa.BasicBlock) int {
	for i, p := range b.Preds {
		if p == from {
			return i
		}
	}
	return -1
}

// edge forwards a state along a CFG edge; back edges become invariant-preservation obligations.
func (E *Engine) edge(fr *Frame, cur *State, from, to *ssa.BasicBlock, guard *Term, li *loopInfo, add func(*State, *Term)) {
	if guard.IsFalse() {
		return
	}
	if lp := li.byHeader[to]; lp != nil && lp.latches[from] {
		s := cur.clone()
		s.reach = guard
		E.backEdge(fr, s, from, lp)
		return
	}
	s := cur.clone()
	s.reach = guard
	add(s, guard)
}

func (E *Engine) iteVal(c *Term, a, b Val) Val {
	switch x := a.(type) {
	case *Term:
		y, ok := b.(*Term)
		if !ok {
			if yc, isC := b.(*Closure); isC {
				return E.tb.Ite(c, x, E.closureRef(yc))
			}
			E.fail("cannot merge term with %T", b)
		}
		return E.tb.Ite(c, x, y)
	case Tuple:
		y := b.(Tuple)
		out := make(Tuple, len(x))
		for i := range x {
			out[i] = E.iteVal(c, x[i], y[i])
		}
		return out
	case *Closure:
		if y, ok := b.(*Closure); ok && y.fn == x.fn && len(y.bind) == len(x.bind) {
			nb := make([]Val, len(x.bind))
			for i := range nb {
				nb[i] = E.iteVal(c, x.bind[i], y.bind[i])
			}
			return &Closure{fn: x.fn, bind: nb}
		}
		// different function values on different paths: an opaque function reference
		var yt *Term
		switch y := b.(type) {
		case *Closure:
			yt = E.closureRef(y)
		case *Term:
			yt = y
		default:
			E.fail("cannot merge closure with %T", b)
		}
		return E.tb.Ite(c, E.closureRef(x), yt)
	case *Addr:
		if y, ok := b.(*Addr); ok && y.key == x.key && y.kind == x.kind && len(y.path) == len(x.path) {
			same := true
			for i := range x.path {
				if x.path[i] != y.path[i] {
					same = false
				}
			}
			if same {
				n := *x
				n.ref = E.tb.Ite(c, x.ref, y.ref)
				if x.idx != nil {
					n.idx = E.tb.Ite(c, x.idx, y.idx)
				}
				return &n
			}
		}
		E.fail("cannot merge distinct addresses")
	case *Iter:
		if a == b {
			return a
		}
		E.fail("cannot merge iterators")
	case nil:
		return b
	}
	E.fail("iteVal: unsupported value %T", a)
	return nil
}

// value evaluates an SSA operand.
func (E *Engine) value(fr *Frame, v ssa.Value) Val {
	if fr.override != nil {
		if x, ok := fr.override[v]; ok {
			return x
		}
	}
	if x, ok := fr.env[v]; ok {
		return x
	}
	switch t := v.(type) {
	case *ssa.Const:
		return E.constant(fr, t)
	case *ssa.Function:
		return &Closure{fn: t}
	case *ssa.Global:
		return E.globalRef(t)
	case *ssa.Builtin:
		return t
	case *ssa.FreeVar:
		E.fail("unbound free variable %s in %s", t.Name(), fr.fn)
	}
	E.fail("value: %s (%T) not defined in %s", v.Name(), v, fr.fn)
	return nil
}

func (E *Engine) term(fr *Frame, v ssa.Value) *Term {
	x := E.value(fr, v)
	if t, ok := x.(*Term); ok {
		return t
	}
	if c, ok := x.(*Closure); ok {
		// function value used as data: opaque reference
		return E.closureRef(c)
	}
	if a, ok := x.(*Addr); ok {
		_ = a
		E.fail("interior pointer %s escapes to a first-class value in %s (outside subset)", v.Name(), fr.fn)
	}
	E.fail("term: %s is %T in %s", v.Name(), x, fr.fn)
	return nil
}

func (E *Engine) closureRef(c *Closure) *Term {
	if c.ref != nil {
		return c.ref
	}
	if len(c.bind) == 0 {
		c.ref = E.tb.Const("fn$"+sanitize(c.fn.String()), SRef)
	} else {
		c.ref = E.tb.Fresh("closure", SRef)
	}
	E.closureByRef[c.ref] = c
	return c.ref
}

func (E *Engine) globalRef(g *ssa.Global) *Term {
	name := "g$" + sanitize(strings.ReplaceAll(g.String(), "istio.io/istio/", ""))
	if t, ok := E.globalRefs[name]; ok {
		return t
	}
	t := E.tb.Const(name, SRef)
	E.globalRefs[name] = t
	E.tb.AddTermAxiom("global-birth:"+name, E.tb.Eq(E.birth(t), E.tb.Int(0)), t)
	return t
}

func (E *Engine) constant(fr *Frame, c *ssa.Const) Val {
	t := E.subst(c.Type(), fr.tenv)
	if c.Value == nil {
		if _, ok := types.Unalias(t).Underlying().(*types.Signature); ok {
			return E.null()
		}
		return E.zero(t, fr.tenv)
	}
	s := E.sortOf(t, fr.tenv)
	switch c.Value.Kind() {
	case constant.Bool:
		return E.tb.Bool(constant.BoolVal(c.Value))
	case constant.String:
		return E.strLit(constant.StringVal(c.Value))
	case constant.Int:
		if s == SReal {
			return E.tb.Real(c.Value.ExactString() + ".0")
		}
		return E.tb.IntStr(c.Value.ExactString())
	case constant.Float:
		if s == SInt {
			v, _ := constant.Int64Val(constant.ToInt(c.Value))
			return E.tb.Int(v)
		}
		r := constant.ToFloat(c.Value)
		num, den := constant.Num(r), constant.Denom(r)
		if den.ExactString() == "1" {
			return E.tb.Real(num.ExactString() + ".0")
		}
		ns := num.ExactString()
		if strings.HasPrefix(ns, "-") {
			return E.tb.App("/", SReal, E.tb.Real(ns+".0"), E.tb.Real(den.ExactString()+".0"))
		}
		return E.tb.App("/", SReal, E.tb.Real(ns+".0"), E.tb.Real(den.ExactString()+".0"))
	}
	E.fail("constant kind %v unsupported", c.Value.Kind())
	return nil
}

func (E *Engine) doPanic(fr *Frame, st *State, p *ssa.Panic) {
	if fr.spec {
		return
	}
	if fr.ghost {
		// a panic in ghost code is a failed assertion of the contract file itself
		E.addObl(fr, st, "assert", "ghost-panic@"+E.P.Pos(p.Pos()), E.tb.False(), p.Pos())
		return
	}
	if E.noSafety {
		return
	}
	label := fmt.Sprintf("%s:panic@%s", shortFn(fr.fn), E.instrOrdinal(fr.fn, p, "panic"))
	E.addObl(fr, st, "safe", label, E.tb.False(), p.Pos())
}

// ---------------------------------------------------------------------------------------------
// Instructions
// ---------------------------------------------------------------------------------------------

func (E *Engine) exec(fr *Frame, st *State, instr ssa.Instruction) {
	tb := E.tb
	if E.logVarargs(fr.fn)[instr] {
		// the argument array of a logging / metrics call: not modelled (the call has no effect on verified
		// state), so that adding or removing a log line does not change any obligation
		if sl, ok := instr.(*ssa.Slice); ok {
			fr.env[sl] = tb.Fresh("logargs", E.sortOf(sl.Type(), fr.tenv))
		}
		return
	}
	switch t := instr.(type) {
	case *ssa.DebugRef:
		return
	case *ssa.Alloc:
		elem := t.Type().(*types.Pointer).Elem()
		r := E.newRef(st, sanitize(t.Comment), fr.spec)
		E.storeObj(st, r, elem, E.zero(elem, fr.tenv), fr.tenv)
		fr.env[t] = r
		if !fr.spec && !hasNestedStruct(E, elem, fr.tenv) {
			tenv := fr.tenv
			keys := map[string]bool{}
			E.objKeys(elem, tenv, keys)
			E.registerLocal(r, keys, func(dst, src *State) { E.storeObj(dst, r, elem, E.loadObj(src, r, elem, tenv), tenv) })
		}
	case *ssa.FieldAddr:
		fr.env[t] = E.fieldAddr(fr, st, t)
	case *ssa.IndexAddr:
		fr.env[t] = E.indexAddr(fr, st, t)
	case *ssa.UnOp:
		fr.env[t] = E.unop(fr, st, t)
	case *ssa.Store:
		E.store(fr, st, t.Addr, E.value(fr, t.Val), t)
	case *ssa.BinOp:
		fr.env[t] = E.binop(fr, st, t)
	case *ssa.Call:
		fr.env[t] = E.call(fr, st, &t.Call, t)
	case *ssa.ChangeType:
		fr.env[t] = E.value(fr, t.X)
	case *ssa.Convert:
		fr.env[t] = E.convert(fr, st, t)
	case *ssa.ChangeInterface:
		fr.env[t] = E.value(fr, t.X)
	case *ssa.MakeInterface:
		xt := E.subst(t.X.Type(), fr.tenv)
		x := E.value(fr, t.X)
		var xv *Term
		if c, ok := x.(*Closure); ok {
			xv = E.closureRef(c)
		} else {
			xv = E.term(fr, t.X)
		}
		fr.env[t] = tb.App("mkiface", SIfc, E.typeID(xt, fr.tenv), E.box(xv))
	case *ssa.Extract:
		tup, ok := E.value(fr, t.Tuple).(Tuple)
		if !ok {
			E.fail("extract from non-tuple in %s", fr.fn)
		}
		fr.env[t] = tup[t.Index]
	case *ssa.Field:
		x := E.term(fr, t.X)
		si := E.structInfoOf(t.X.Type(), fr.tenv)
		if si.sort == SUnit {
			E.fail("field of empty struct")
		}
		fr.env[t] = E.field(si, x, t.Field)
	case *ssa.Index:
		x := E.term(fr, t.X)
		i := E.term(fr, t.Index)
		if x.sort.IsArray() {
			arr := types.Unalias(E.subst(t.X.Type(), fr.tenv)).Underlying().(*types.Array)
			E.safety(fr, st, "index", tb.And(tb.Cmp("<=", tb.Int(0), i), tb.Cmp("<", i, tb.Int(arr.Len()))), t)
			fr.env[t] = tb.Select(x, i)
		} else {
			// string index
			E.safety(fr, st, "index", tb.And(tb.Cmp("<=", tb.Int(0), i), tb.Cmp("<", i, E.strLen(x))), t)
			fr.env[t] = E.strAt(x, i)
		}
	case *ssa.Lookup:
		fr.env[t] = E.lookup(fr, st, t)
	case *ssa.MapUpdate:
		E.mapUpdate(fr, st, t)
	case *ssa.MakeMap:
		mt := types.Unalias(E.subst(t.Type(), fr.tenv)).Underlying().(*types.Map)
		ks, vs := E.sortOf(mt.Key(), fr.tenv), E.sortOf(mt.Elem(), fr.tenv)
		r := E.newRef(st, "map", fr.spec)
		dk, dks := E.mdomKey(mt, fr.tenv)
		E.set(st, dk, tb.Store(E.get(st, dk, dks), r, tb.ConstArray(ArraySort(ks, SBool), tb.False())))
		_ = vs
		fr.env[t] = r
	case *ssa.MakeSlice:
		stp := types.Unalias(E.subst(t.Type(), fr.tenv)).Underlying().(*types.Slice)
		es := E.sortOf(stp.Elem(), fr.tenv)
		ln := E.term(fr, t.Len)
		cp := E.term(fr, t.Cap)
		E.safety(fr, st, "makeslice", tb.And(tb.Cmp("<=", tb.Int(0), ln), tb.Cmp("<=", ln, cp)), t)
		r := E.newRef(st, "slice", fr.spec)
		ak, aks := E.arrKey(stp.Elem(), fr.tenv)
		E.set(st, ak, tb.Store(E.get(st, ak, aks), r, tb.ConstArray(ArraySort(SInt, es), E.zero(stp.Elem(), fr.tenv))))
		fr.env[t] = E.mkSlice(r, tb.Int(0), ln, cp)
	case *ssa.MakeChan:
		fr.env[t] = E.newRef(st, "chan", fr.spec)
	case *ssa.MakeClosure:
		var bind []Val
		for _, b := range t.Bindings {
			bind = append(bind, E.value(fr, b))
		}
		fr.env[t] = &Closure{fn: t.Fn.(*ssa.Function), bind: bind}
		if E.P.IsGhost(fr.fn) == false {
			// a captured variable may be read or written whenever the closure runs
			for _, b := range bind {
				E.escape(b)
			}
		}
	case *ssa.Slice:
		fr.env[t] = E.slice(fr, st, t)
	case *ssa.Range:
		fr.env[t] = E.rangeInstr(fr, st, t)
	case *ssa.Next:
		fr.env[t] = E.next(fr, st, t)
	case *ssa.TypeAssert:
		fr.env[t] = E.typeAssert(fr, st, t)
	case *ssa.Defer:
		if fr.spec {
			E.fail("defer in specification code")
		}
		fr.defers = append(fr.defers, t)
	case *ssa.RunDefers:
		for i := len(fr.defers) - 1; i >= 0; i-- {
			d := fr.defers[i]
			E.call(fr, st, &d.Call, d)
		}
	case *ssa.Go:
		E.goStmt(fr, st, t)
	case *ssa.Send:
		E.fail("channel send in %s (outside subset)", fr.fn)
	case *ssa.Select:
		E.fail("select in %s (outside subset)", fr.fn)
	case *ssa.MultiConvert:
		fr.env[t] = E.value(fr, t.X)
	case *ssa.SliceToArrayPointer:
		E.fail("slice to array pointer (outside subset)")
	default:
		E.fail("unsupported instruction %T in %s", instr, fr.fn)
	}
}

func (E *Engine) goStmt(fr *Frame, st *State, g *ssa.Go) {
	E.fail("go statement in %s (outside subset)", fr.fn)
}

func (E *Engine) strAt(s, i *Term) *Term {
	if E.tb.useStrings {
		return E.tb.App("str.to_code", SInt, E.tb.App("str.at", "String", s, i))
	}
	return E.tb.UF("strbyte", SInt, s, i)
}

func (E *Engine) fieldAddr(fr *Frame, st *State, t *ssa.FieldAddr) Val {
	tb := E.tb
	base := E.value(fr, t.X)
	pt := types.Unalias(E.subst(t.X.Type(), fr.tenv)).Underlying().(*types.Pointer)
	si := E.structInfoOf(pt.Elem(), fr.tenv)
	if si == nil {
		E.fail("fieldaddr on non-struct %s", pt.Elem())
	}
	ft := si.ftypes[t.Field]
	switch b := base.(type) {
	case *Term:
		E.safety(fr, st, "nil", tb.Not(tb.Eq(b, E.null())), t)
		if isStruct(ft) {
			if E.structInfoOf(ft, fr.tenv).sort == SUnit {
				return E.subRef(si, t.Field, b)
			}
			return E.subRef(si, t.Field, b)
		}
		k, ks := E.fieldKey(si, t.Field)
		return &Addr{kind: aField, key: k, ks: ks, ref: b, typ: ft}
	case *Addr:
		n := *b
		n.path = append(append([]pathStep{}, b.path...), pathStep{si, t.Field})
		n.typ = ft
		return &n
	}
	E.fail("fieldaddr base %T", base)
	return nil
}

func (E *Engine) indexAddr(fr *Frame, st *State, t *ssa.IndexAddr) Val {
	tb := E.tb
	xt := types.Unalias(E.subst(t.X.Type(), fr.tenv)).Underlying()
	i := E.term(fr, t.Index)
	switch tt := xt.(type) {
	case *types.Slice:
		s := E.term(fr, t.X)
		E.safety(fr, st, "index", tb.And(tb.Cmp("<=", tb.Int(0), i), tb.Cmp("<", i, E.slcLen(s))), t)
		k, ks := E.arrKey(tt.Elem(), fr.tenv)
		return &Addr{kind: aElem, key: k, ks: ks, ref: E.slcArr(s), idx: tb.Arith("+", E.slcOff(s), i), typ: tt.Elem()}
	case *types.Pointer:
		arr := types.Unalias(tt.Elem()).Underlying().(*types.Array)
		p := E.term(fr, t.X)
		E.safety(fr, st, "nil", tb.Not(tb.Eq(p, E.null())), t)
		E.safety(fr, st, "index", tb.And(tb.Cmp("<=", tb.Int(0), i), tb.Cmp("<", i, tb.Int(arr.Len()))), t)
		k, ks := E.arrKey(arr.Elem(), fr.tenv)
		return &Addr{kind: aElem, key: k, ks: ks, ref: p, idx: i, typ: arr.Elem()}
	}
	E.fail("indexaddr on %s", xt)
	return nil
}

func (E *Engine) unop(fr *Frame, st *State, t *ssa.UnOp) Val {
	tb := E.tb
	switch t.Op {
	case token.MUL:
		x := E.value(fr, t.X)
		var v *Term
		switch a := x.(type) {
		case *Addr:
			v = E.loadAddr(st, a)
		case *Term:
			if cl, ok := E.cellClosure[a]; ok && cl != nil {
				return cl
			}
			if g, ok := t.X.(*ssa.Global); ok && g.Name() == "EnableUnsafeAssertions" && g.Pkg != nil && strings.HasSuffix(g.Pkg.Pkg.Path(), "/features") {
				// E11: the CI-only switch that turns checks into log.Fatalf / panic is taken as off
				E.note("features.EnableUnsafeAssertions (a CI-only switch that turns checks into panics) is taken as false (E11)")
				return tb.False()
			}
			E.safety(fr, st, "nil", tb.Not(tb.Eq(a, E.null())), t)
			elem := types.Unalias(E.subst(t.X.Type(), fr.tenv)).Underlying().(*types.Pointer).Elem()
			v = E.loadObj(st, a, elem, fr.tenv)
		default:
			E.fail("load through %T", x)
		}
		E.assumeLoaded(fr, st, v, t.Type())
		return v
	case token.NOT:
		return tb.Not(E.term(fr, t.X))
	case token.SUB:
		x := E.term(fr, t.X)
		if x.sort == SReal {
			return tb.App("-", SReal, tb.Real("0.0"), x)
		}
		return tb.Arith("-", tb.Int(0), x)
	case token.XOR:
		return tb.UF("bitnot", SInt, E.term(fr, t.X))
	case token.ARROW:
		if fr.spec {
			E.fail("channel receive in specification")
		}
		E.note("channel receive yields an unconstrained value")
		s := E.sortOf(t.Type(), fr.tenv)
		if t.CommaOk {
			return Tuple{tb.Fresh("recv", E.sortOf(t.Type().(*types.Tuple).At(0).Type(), fr.tenv)), tb.Fresh("recvok", SBool)}
		}
		return tb.Fresh("recv", s)
	}
	E.fail("unop %s", t.Op)
	return nil
}

// assumeLoaded adds the type invariant of a value read from memory.
func (E *Engine) assumeLoaded(fr *Frame, st *State, v *Term, t types.Type) {
	if fr.spec {
		return
	}
	switch v.sort {
	case SInt, SSlc, SIfc:
		if v.kind == kLit {
			return
		}
		E.addFact(st, E.wellTyped(v, t, fr.tenv))
		if v.sort == SSlc {
			E.addFact(st, E.exists(st, E.slcArr(v)))
		}
	case SRef:
		// heap closedness: a reference read from memory is nil or refers to an existing object
		if v.kind == kConst {
			return
		}
		E.addFact(st, E.exists(st, v))
	}
}

func (E *Engine) note(s string) { E.assumption[s] = true }

func (E *Engine) store(fr *Frame, st *State, addr ssa.Value, val Val, instr ssa.Instruction) {
	a := E.value(fr, addr)
	E.escape(val)
	var v *Term
	switch x := val.(type) {
	case *Term:
		v = x
	case *Closure:
		// storing a function value: remember which closure a local cell holds (captured function
		// variables are written once), so that a later load resolves to it even across a havoc
		v = E.closureRef(x)
		if at, ok := a.(*Term); ok && at.kind == kConst && isAddrConst(at.atom) {
			if prev, seen := E.cellClosure[at]; seen && prev != x {
				E.cellClosure[at] = nil // ambiguous
			} else {
				E.cellClosure[at] = x
			}
		}
	case *Addr:
		E.fail("interior pointer stored to memory in %s (outside subset)", fr.fn)
	default:
		E.fail("store of %T", val)
	}
	switch x := a.(type) {
	case *Addr:
		E.storeAddr(st, x, v)
	case *Term:
		E.safety(fr, st, "nil", E.tb.Not(E.tb.Eq(x, E.null())), instr)
		elem := types.Unalias(E.subst(addr.Type(), fr.tenv)).Underlying().(*types.Pointer).Elem()
		E.storeObj(st, x, elem, v, fr.tenv)
	default:
		E.fail("store through %T", a)
	}
}

func (E *Engine) convert(fr *Frame, st *State, t *ssa.Convert) Val {
	tb := E.tb
	x := E.term(fr, t.X)
	from := E.sortOf(t.X.Type(), fr.tenv)
	to := E.sortOf(t.Type(), fr.tenv)
	if from == to {
		if from == SInt {
			// conversion between integer types: value-preserving when in range; otherwise wraps.
			fb, _ := types.Unalias(E.subst(t.X.Type(), fr.tenv)).Underlying().(*types.Basic)
			tbk, _ := types.Unalias(E.subst(t.Type(), fr.tenv)).Underlying().(*types.Basic)
			if fb != nil && tbk != nil && !rangeIncluded(fb.Kind(), tbk.Kind()) {
				lo, hi := intRange(tbk.Kind())
				inRange := tb.And(tb.Cmp("<=", tb.IntStr(lo), x), tb.Cmp("<=", x, tb.IntStr(hi)))
				w := tb.UF("wrap$"+tbk.Name(), SInt, x)
				r := tb.Ite(inRange, x, w)
				if !fr.spec {
					E.addFact(st, tb.And(tb.Cmp("<=", tb.IntStr(lo), w), tb.Cmp("<=", w, tb.IntStr(hi))))
				}
				return r
			}
		}
		return x
	}
	strS := E.strSort()
	switch {
	case from == SInt && to == SReal:
		return tb.App("to_real", SReal, x)
	case from == SReal && to == SInt:
		E.note("float->int conversion modelled as truncation toward zero of a real")
		return tb.Ite(tb.Cmp(">=", x, tb.Real("0.0")), tb.App("to_int", SInt, x), tb.Arith("-", tb.Int(0), tb.App("to_int", SInt, tb.App("-", SReal, tb.Real("0.0"), x))))
	case from == strS && to == SSlc, from == SSlc && to == strS, from == SInt && to == strS:
		return tb.UF("conv$"+sanitize(string(from))+"$"+sanitize(string(to)), to, x)
	}
	E.fail("convert %s -> %s", t.X.Type(), t.Type())
	return nil
}

func rangeIncluded(from, to types.BasicKind) bool {
	flo, fhi := intRange(from)
	tlo, thi := intRange(to)
	if flo == "" || tlo == "" {
		return true
	}
	return cmpDec(tlo, flo) <= 0 && cmpDec(fhi, thi) <= 0
}

func cmpDec(a, b string) int {
	na, nb := strings.HasPrefix(a, "-"), strings.HasPrefix(b, "-")
	if na != nb {
		if na {
			return -1
		}
		return 1
	}
	if na {
		return -cmpDec(a[1:], b[1:])
	}
	if len(a) != len(b) {
		if len(a) < len(b) {
			return -1
		}
		return 1
	}
	return strings.Compare(a, b)
}

func (E *Engine) binop(fr *Frame, st *State, t *ssa.BinOp) Val {
	tb := E.tb
	x := E.value(fr, t.X)
	y := E.value(fr, t.Y)
	// comparisons involving function values
	if _, ok := x.(*Closure); ok {
		x = E.closureRef(x.(*Closure))
	}
	if _, ok := y.(*Closure); ok {
		y = E.closureRef(y.(*Closure))
	}
	a, ok1 := x.(*Term)
	b, ok2 := y.(*Term)
	if !ok1 || !ok2 {
		E.fail("binop on %T,%T in %s", x, y, fr.fn)
	}
	strS := E.strSort()
	switch t.Op {
	case token.EQL:
		return E.eq(a, b)
	case token.NEQ:
		return tb.Not(E.eq(a, b))
	}
	if a.sort == strS {
		switch t.Op {
		case token.ADD:
			return E.strConcat(a, b)
		case token.LSS:
			return E.strLess(a, b)
		case token.GTR:
			return E.strLess(b, a)
		case token.LEQ:
			return tb.Not(E.strLess(b, a))
		case token.GEQ:
			return tb.Not(E.strLess(a, b))
		}
	}
	if a.sort == SReal {
		switch t.Op {
		case token.ADD:
			return tb.App("+", SReal, a, b)
		case token.SUB:
			return tb.App("-", SReal, a, b)
		case token.MUL:
			return tb.App("*", SReal, a, b)
		case token.QUO:
			return tb.App("/", SReal, a, b)
		case token.LSS:
			return tb.App("<", SBool, a, b)
		case token.LEQ:
			return tb.App("<=", SBool, a, b)
		case token.GTR:
			return tb.App(">", SBool, a, b)
		case token.GEQ:
			return tb.App(">=", SBool, a, b)
		}
	}
	if a.sort == SBool {
		switch t.Op {
		case token.AND, token.LAND:
			return tb.And(a, b)
		case token.OR, token.LOR:
			return tb.Or(a, b)
		}
	}
	if a.sort == SInt {
		switch t.Op {
		case token.ADD, token.SUB, token.MUL:
			op := map[token.Token]string{token.ADD: "+", token.SUB: "-", token.MUL: "*"}[t.Op]
			r := tb.Arith(op, a, b)
			return E.wrapArith(fr, st, r, t)
		case token.QUO, token.REM:
			E.safety(fr, st, "divzero", tb.Not(tb.Eq(b, tb.Int(0))), t)
			// Go truncates toward zero; SMT div floors for positive divisor
			q := E.goDiv(a, b)
			if t.Op == token.QUO {
				return q
			}
			return tb.Arith("-", a, tb.Arith("*", q, b))
		case token.LSS:
			return tb.Cmp("<", a, b)
		case token.LEQ:
			return tb.Cmp("<=", a, b)
		case token.GTR:
			return tb.Cmp(">", a, b)
		case token.GEQ:
			return tb.Cmp(">=", a, b)
		case token.AND, token.OR, token.XOR, token.SHL, token.SHR, token.AND_NOT:
			if x, ok := a.IntVal(); ok {
				if y, ok := b.IntVal(); ok && x >= 0 && y >= 0 && y < 62 || ok && x >= 0 && y >= 0 && t.Op != token.SHL && t.Op != token.SHR {
					switch t.Op {
					case token.AND:
						return tb.Int(x & y)
					case token.OR:
						return tb.Int(x | y)
					case token.XOR:
						return tb.Int(x ^ y)
					case token.AND_NOT:
						return tb.Int(x &^ y)
					case token.SHR:
						return tb.Int(x >> uint(y))
					case token.SHL:
						if x < 1<<20 && y < 40 {
							return tb.Int(x << uint(y))
						}
					}
				}
			}
			if t.Op == token.AND {
				// x & mask for a literal mask with few bits: exact (bit k of x is floor(x / 2^k) mod 2)
				x, m := a, b
				if _, ok := x.IntVal(); ok {
					x, m = b, a
				}
				if mv, ok := m.IntVal(); ok && mv >= 0 && bits.OnesCount64(uint64(mv)) <= 8 {
					sum := tb.Int(0)
					for k := 0; k < 62; k++ {
						if mv&(1<<uint(k)) != 0 {
							bit := tb.App("mod", SInt, tb.App("div", SInt, x, tb.Int(1<<uint(k))), tb.Int(2))
							sum = tb.Arith("+", sum, tb.Arith("*", tb.Int(1<<uint(k)), bit))
						}
					}
					return sum
				}
			}
			E.note("bit operation modelled as an uninterpreted function")
			return tb.UF("bitop$"+sanitize(t.Op.String()), SInt, a, b)
		}
	}
	E.fail("binop %s on sort %s", t.Op, a.sort)
	return nil
}

// wrapArith: sized integer arithmetic. Results are kept mathematical; the assumption
// "machine arithmetic treated as mathematical" is recorded unless the harness asks for overflow checks.
func (E *Engine) wrapArith(fr *Frame, st *State, r *Term, t *ssa.BinOp) *Term {
	if fr.spec || fr.ghost {
		return r
	}
	if b, ok := types.Unalias(E.subst(t.Type(), fr.tenv)).Underlying().(*types.Basic); ok {
		lo, hi := intRange(b.Kind())
		if lo != "" && r.kind != kLit {
			if E.arithChecked[originOf(fr.fn)] {
				E.safety(fr, st, "overflow", E.tb.And(E.tb.Cmp("<=", E.tb.IntStr(lo), r), E.tb.Cmp("<=", r, E.tb.IntStr(hi))), t)
			} else {
				E.note("machine arithmetic treated as mathematical (no wrap-around) outside functions marked arith-checked")
			}
		}
	}
	return r
}

func originOf(fn *ssa.Function) *ssa.Function {
	if o := fn.Origin(); o != nil {
		return o
	}
	return fn
}

func (E *Engine) goDiv(a, b *Term) *Term {
	tb := E.tb
	// truncated division: sign(a)*sign(b)*(|a| div |b|)
	abs := func(x *Term) *Term { return tb.App("abs", SInt, x) }
	q := tb.App("div", SInt, abs(a), abs(b))
	neg := tb.Not(tb.Eq(tb.Cmp("<", a, tb.Int(0)), tb.Cmp("<", b, tb.Int(0))))
	return tb.Ite(neg, tb.Arith("-", tb.Int(0), q), q)
}

func (E *Engine) strLess(a, b *Term) *Term {
	if E.tb.useStrings {
		return E.tb.App("str.<", SBool, a, b)
	}
	tb := E.tb
	// strict total order on strings
	lt := func(x, y *Term) *Term { return tb.App("strlt", SBool, x, y) }
	tb.DeclFunc("strlt", []Sort{"Str", "Str"}, SBool)
	x, y, z := tb.BVar("x", "Str"), tb.BVar("y", "Str"), tb.BVar("z", "Str")
	tb.AddAxiom("strlt-irrefl", tb.Forall([]*Term{x}, tb.Not(lt(x, x))), "strlt")
	tb.AddAxiom("strlt-trans", tb.Forall([]*Term{x, y, z}, tb.Implies(tb.And(lt(x, y), lt(y, z)), lt(x, z))), "strlt")
	tb.AddAxiom("strlt-total", tb.Forall([]*Term{x, y}, tb.Or(lt(x, y), lt(y, x), tb.Eq(x, y))), "strlt")
	return lt(a, b)
}

// eq is Go's == on comparable values.
func (E *Engine) eq(a, b *Term) *Term {
	if a.sort == SIfc {
		// an interface value is nil iff it has no dynamic type
		if b == E.nilIface() {
			return E.tb.Eq(E.ifcTag(a), E.tb.Int(0))
		}
		if a == E.nilIface() {
			return E.tb.Eq(E.ifcTag(b), E.tb.Int(0))
		}
	}
	return E.tb.Eq(a, b)
}

// logVarargs: the instructions of fn that only build the variadic argument array of calls into packages on
// the no-effect list (logging, metrics, fmt): the array's allocation, the stores into it and its slicing.
func (E *Engine) logVarargs(fn *ssa.Function) map[ssa.Instruction]bool {
	if E.logArgsMemo == nil {
		E.logArgsMemo = map[*ssa.Function]map[ssa.Instruction]bool{}
	}
	if m, ok := E.logArgsMemo[fn]; ok {
		return m
	}
	m := map[ssa.Instruction]bool{}
	E.logArgsMemo[fn] = m
	for _, b := range fn.Blocks {
		for _, in := range b.Instrs {
			al, ok := in.(*ssa.Alloc)
			if !ok || al.Comment != "varargs" || al.Referrers() == nil {
				continue
			}
			var group []ssa.Instruction
			good := true
			for _, r := range *al.Referrers() {
				switch t := r.(type) {
				case *ssa.IndexAddr:
					group = append(group, t)
					if t.Referrers() == nil {
						continue
					}
					for _, rr := range *t.Referrers() {
						if st, ok := rr.(*ssa.Store); ok && st.Addr == t {
							group = append(group, st)
							// the boxing of the stored value, when nothing else uses it
							if mi, ok := st.Val.(*ssa.MakeInterface); ok && mi.Referrers() != nil && len(*mi.Referrers()) == 1 {
								group = append(group, mi)
							}
						} else {
							good = false
						}
					}
				case *ssa.Slice:
					group = append(group, t)
					if t.Referrers() == nil {
						continue
					}
					for _, rr := range *t.Referrers() {
						c, ok := rr.(ssa.CallInstruction)
						if !ok || !E.isNoEffectCallee(c.Common()) {
							good = false
							continue
						}
						// the call itself, when it returns nothing: it reports and does nothing else
						if call, isCall := rr.(*ssa.Call); isCall && call.Call.Signature().Results().Len() == 0 {
							group = append(group, call)
						}
					}
				case *ssa.DebugRef:
				default:
					good = false
				}
			}
			if os.Getenv("GOVC_DEBUG_LOGARGS") != "" {
				fmt.Fprintf(os.Stderr, "logargs %s: alloc %s good=%v group=%d\n", fn, al.Name(), good, len(group))
			}
			if good {
				m[al] = true
				for _, g := range group {
					m[g] = true
				}
			}
		}
	}
	return m
}

// isNoEffectCallee: the call goes into a package on the no-effect list that only reports (logging, metrics).
func (E *Engine) isNoEffectCallee(c *ssa.CallCommon) bool {
	var pkg *types.Package
	if c.IsInvoke() {
		pkg = c.Method.Pkg()
	} else if f := c.StaticCallee(); f != nil {
		o := originOf(f)
		if o.Pkg != nil {
			pkg = o.Pkg.Pkg
		} else if o.Object() != nil {
			pkg = o.Object().Pkg()
		}
	}
	if pkg == nil {
		return false
	}
	switch pkg.Path() {
	case "istio.io/istio/pkg/log", "istio.io/istio/pkg/monitoring":
		return true
	}
	return false
}
