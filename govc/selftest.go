package main

import (
	"fmt"
	"os"
	"os/exec"
	"path/filepath"
	"sort"
	"strings"
)

// govc selftest <PROPERTY|all> : the must-fail corpus. Every patch under
// selftest/mutants/<ID>/*.patch (and seeded/<name>/patch.diff whose meta names the property) is a
// compiling change of /repo that breaks the property; applied through an overlay (nothing is
// written into /repo), each must make a named obligation fail.
func cmdSelftest(argv []string) int {
	if len(argv) < 1 {
		usage()
	}
	vd := verifDir()
	var props map[string]PropConfig
	if err := loadJSON(filepath.Join(vd, "props.json"), &props); err != nil {
		fmt.Fprintln(os.Stderr, err)
		return 2
	}
	var ids []string
	if argv[0] == "all" {
		for id := range props {
			ids = append(ids, id)
		}
		sort.Strings(ids)
	} else {
		ids = argv[:1]
	}
	survived := 0
	for _, id := range ids {
		pc := props[id]
		patches, _ := filepath.Glob(filepath.Join(vd, "selftest", "mutants", id, "*.patch"))
		seeded, _ := filepath.Glob(filepath.Join(vd, "seeded", id+"-*", "patch.diff"))
		patches = append(patches, seeded...)
		sort.Strings(patches)
		for _, p := range patches {
			if len(argv) > 1 && !strings.Contains(p, argv[1]) {
				continue
			}
			killed, detail := runMutant("/repo", p, id, pc)
			status := "KILLED  "
			if !killed {
				status = "SURVIVED"
				survived++
			}
			fmt.Printf("%s %s %s\n         %s\n", status, id, strings.TrimPrefix(p, vd+"/"), detail)
		}
	}
	if survived > 0 {
		fmt.Printf("%d mutant(s) survived\n", survived)
		return 1
	}
	return 0
}

// applyPatchOverlay applies a unified diff to temporary copies of the files it names.
func applyPatchOverlay(repo, patch string) (map[string][]byte, error) {
	data, err := os.ReadFile(patch)
	if err != nil {
		return nil, err
	}
	dir, err := os.MkdirTemp("", "govc-mut")
	if err != nil {
		return nil, err
	}
	defer os.RemoveAll(dir)
	var files []string
	for _, line := range strings.Split(string(data), "\n") {
		if strings.HasPrefix(line, "+++ b/") {
			files = append(files, strings.TrimSpace(line[len("+++ b/"):]))
		}
	}
	for _, f := range files {
		src, err := os.ReadFile(filepath.Join(repo, f))
		if err != nil {
			return nil, err
		}
		os.MkdirAll(filepath.Dir(filepath.Join(dir, f)), 0o755)
		os.WriteFile(filepath.Join(dir, f), src, 0o644)
	}
	cmd := exec.Command("patch", "-p1", "-s", "-i", patch)
	cmd.Dir = dir
	if out, err := cmd.CombinedOutput(); err != nil {
		return nil, fmt.Errorf("patch does not apply: %s", strings.TrimSpace(string(out)))
	}
	ov := map[string][]byte{}
	for _, f := range files {
		b, err := os.ReadFile(filepath.Join(dir, f))
		if err != nil {
			return nil, err
		}
		ov[filepath.Join(repo, f)] = b
	}
	return ov, nil
}

func runMutant(repo, patch, id string, pc PropConfig) (bool, string) {
	ov, err := applyPatchOverlay(repo, patch)
	if err != nil {
		return false, "cannot apply: " + err.Error()
	}
	P, err := LoadProgram(repo, pc.Pkgs, ov)
	if err != nil {
		return true, "contracts no longer load against the changed code: " + firstLines(err.Error(), 2)
	}
	qdir, _ := os.MkdirTemp("", "govc-mutq")
	defer os.RemoveAll(qdir)
	opt := solveOpts{dir: qdir, order: []string{"z3-new", "cvc5"}, timeoutS: 20, jobs: 5}
	var failed []string
	vd := verifDir()
	var flows []FlowCheck
	_ = loadJSON(filepath.Join(vd, "flowchecks.json"), &flows)
	for _, fc := range flows {
		if fc.Property != id {
			continue
		}
		if fr := runFlowCheck(P, fc); !fr.ok {
			failed = append(failed, "flow#"+fc.Name)
		}
	}
	var keyReads []KeyReads
	_ = loadJSON(filepath.Join(vd, "keyreads.json"), &keyReads)
	for _, kr := range keyReads {
		if kr.Property != id {
			continue
		}
		if ok, _ := runKeyReads(P, kr); !ok {
			failed = append(failed, "reads#"+kr.Name)
		}
	}
	if len(failed) > 0 {
		return true, "fails: " + strings.Join(failed, ", ")
	}
	for _, n := range P.HarnessNames() {
		h := P.harness[n]
		serves := false
		for _, p := range h.Props {
			if p == id {
				serves = true
			}
		}
		if !serves {
			continue
		}
		r := runHarness(P, h, opt)
		if r.Err != "" {
			failed = append(failed, h.Name+"#engine("+r.Err+")")
			continue
		}
		for _, o := range r.Obls {
			if o.Cover {
				if o.Result == "unsat" {
					failed = append(failed, o.Name+"[vacuous]")
				}
				continue
			}
			if o.Result != "unsat" && !isSpecifiedNotProved(vd, id, o.Name) {
				failed = append(failed, o.Name+"["+o.Result+"]")
			}
		}
	}
	if len(failed) == 0 {
		return false, "no obligation fails"
	}
	if len(failed) > 4 {
		failed = append(failed[:4], fmt.Sprintf("… %d more", len(failed)-4))
	}
	return true, "fails: " + strings.Join(failed, ", ")
}
