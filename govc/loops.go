package main

import (
	"fmt"
	"go/types"
	"sort"
	"strings"

	"golang.org/x/tools/go/ssa"
)

type loop struct {
	header  *ssa.BasicBlock
	latches map[*ssa.BasicBlock]bool
	blocks  map[*ssa.BasicBlock]bool
	ordinal int
	// per execution (keyed by frame) data
}

type loopInfo struct {
	order    []*ssa.BasicBlock // topological order of the CFG without back edges
	byHeader map[*ssa.BasicBlock]*loop
	loops    []*loop
}

func (E *Engine) loops(fn *ssa.Function) *loopInfo {
	if li, ok := E.loopInfo[fn]; ok {
		return li
	}
	li := &loopInfo{byHeader: map[*ssa.BasicBlock]*loop{}}
	// back edges: u->h with h dominating u
	for _, u := range fn.Blocks {
		for _, h := range u.Succs {
			if h.Dominates(u) {
				lp := li.byHeader[h]
				if lp == nil {
					lp = &loop{header: h, latches: map[*ssa.BasicBlock]bool{}, blocks: map[*ssa.BasicBlock]bool{h: true}}
					li.byHeader[h] = lp
					li.loops = append(li.loops, lp)
				}
				lp.latches[u] = true
				// natural loop: nodes reaching u without passing h
				var stack []*ssa.BasicBlock
				if !lp.blocks[u] {
					lp.blocks[u] = true
					stack = append(stack, u)
				}
				for len(stack) > 0 {
					x := stack[len(stack)-1]
					stack = stack[:len(stack)-1]
					for _, p := range x.Preds {
						if !lp.blocks[p] {
							lp.blocks[p] = true
							stack = append(stack, p)
						}
					}
				}
			}
		}
	}
	sort.Slice(li.loops, func(i, j int) bool { return li.loops[i].header.Index < li.loops[j].header.Index })
	for i, lp := range li.loops {
		lp.ordinal = i + 1
	}
	// topological order ignoring back edges (DFS post-order reversed)
	visited := map[*ssa.BasicBlock]int{}
	var post []*ssa.BasicBlock
	var dfs func(b *ssa.BasicBlock)
	dfs = func(b *ssa.BasicBlock) {
		visited[b] = 1
		for _, s := range b.Succs {
			if lp := li.byHeader[s]; lp != nil && lp.latches[b] {
				continue
			}
			if visited[s] == 1 {
				E.fail("irreducible control flow in %s", fn)
			}
			if visited[s] == 0 {
				dfs(s)
			}
		}
		visited[b] = 2
		post = append(post, b)
	}
	if len(fn.Blocks) > 0 {
		dfs(fn.Blocks[0])
	}
	for i := len(post) - 1; i >= 0; i-- {
		li.order = append(li.order, post[i])
	}
	E.loopInfo[fn] = li
	return li
}

func headerPhis(b *ssa.BasicBlock) []*ssa.Phi {
	var out []*ssa.Phi
	for _, in := range b.Instrs {
		p, ok := in.(*ssa.Phi)
		if !ok {
			break
		}
		out = append(out, p)
	}
	return out
}

// enterLoop cuts the loop at its header: assert the invariant on entry, havoc what the loop may
// change, assume the invariant.
func (E *Engine) enterLoop(fr *Frame, cur *State, lp *loop, li *loopInfo) {
	if fr.spec {
		E.fail("loop in specification code %s", fr.fn)
	}
	tb := E.tb
	inv := E.P.invariants[originOf(fr.fn)][lp.ordinal]
	label := fmt.Sprintf("%s:loop%d", shortFn(fr.fn), lp.ordinal)
	if inv != nil && !E.invariantBinds(fr, cur, lp, inv) {
		// the function was restructured and the invariant written for this loop ordinal no longer fits
		// its variables: the loop is cut without it (everything it writes is forgotten); the contract's
		// postconditions still have to be proved
		E.note("invariant " + inv.Name() + " no longer binds to " + label + " (variables it names are not in scope there): loop cut with 'true'")
		if fr.staleInv == nil {
			fr.staleInv = map[*loop]bool{}
		}
		fr.staleInv[lp] = true
		inv = nil
	}
	if inv != nil {
		goal := E.evalInvariant(fr, cur, lp, inv, nil)
		E.addObl(fr, cur, "inv-init", label, goal, lp.header.Instrs[0].Pos())
	} else {
		E.note("loop without invariant is cut with 'true' (everything it may write is forgotten): " + label)
	}
	// havoc
	ws := E.loopWrites(fr, lp)
	for _, it := range fr.iters {
		if it.instr != nil && lp.blocks[nextBlockOf(it.instr)] {
			ws.key(it.visKey).any = true
		}
	}
	E.havocKeys(cur, ws, func(v ssa.Value) (*Term, bool) {
		// a base address is usable for the frame if it is defined outside the loop
		if in, ok := v.(ssa.Instruction); ok && in.Block() != nil && lp.blocks[in.Block()] {
			return nil, false
		}
		if fv, ok := v.(*ssa.FreeVar); ok {
			if t, ok := fr.env[fv].(*Term); ok {
				return t, true
			}
			return nil, false
		}
		return E.baseRef(fr, v)
	})
	for _, phi := range headerPhis(lp.header) {
		old := fr.env[phi]
		switch o := old.(type) {
		case *Term:
			v := tb.Fresh(phi.Comment+"$"+phi.Name(), o.sort)
			E.addFact(cur, E.wellTyped(v, phi.Type(), fr.tenv))
			if phi.Comment == "rangeindex" && o.sort == SInt {
				// by construction of range loops the hidden index starts at -1 and only grows
				E.addFact(cur, tb.Cmp(">=", v, tb.Int(-1)))
			}
			E.assumeAllocated(cur, v)
			fr.env[phi] = v
		default:
			// non-term values must be loop invariant
			for i, e := range phi.Edges {
				if lp.latches[lp.header.Preds[i]] {
					if e != phi {
						if ev, ok := fr.env[e]; !ok || ev != old {
							E.fail("loop-carried value %s of kind %T in %s (outside subset)", phi.Name(), old, fr.fn)
						}
					}
				}
			}
		}
	}
	if inv != nil {
		E.addFact(cur, E.evalInvariant(fr, cur, lp, inv, nil))
	}
}

func nextBlockOf(r *ssa.Range) *ssa.BasicBlock {
	for _, ref := range *r.Referrers() {
		if n, ok := ref.(*ssa.Next); ok {
			return n.Block()
		}
	}
	return r.Block()
}

// invariantBinds: can every parameter of the invariant be resolved at the loop header?
func (E *Engine) invariantBinds(fr *Frame, st *State, lp *loop, inv *ssa.Function) (ok bool) {
	defer func() {
		if r := recover(); r != nil {
			if _, isAbort := r.(abort); isAbort {
				ok = false
				return
			}
			panic(r)
		}
	}()
	for _, p := range inv.Params {
		v := E.resolveParam(fr, st, lp.header, 0, p, inv.Params)
		if v == nil {
			return false
		}
		// the variable must still have the type the invariant expects
		if t, isTerm := v.(*Term); isTerm {
			if t.sort != E.sortOf(p.Type(), nil) && inv.TypeParams() == nil {
				return false
			}
		}
	}
	return true
}

func (E *Engine) backEdge(fr *Frame, s *State, from *ssa.BasicBlock, lp *loop) {
	inv := E.P.invariants[originOf(fr.fn)][lp.ordinal]
	if inv == nil || fr.staleInv[lp] {
		return
	}
	idx := predIndex(lp.header, from)
	ov := map[ssa.Value]Val{}
	for _, phi := range headerPhis(lp.header) {
		ov[phi] = E.value(fr, phi.Edges[idx])
	}
	goal := E.evalInvariant(fr, s, lp, inv, ov)
	label := fmt.Sprintf("%s:loop%d", shortFn(fr.fn), lp.ordinal)
	E.addObl(fr, s, "inv-preserve", label, goal, from.Instrs[len(from.Instrs)-1].Pos())
}

// evalInvariant evaluates the ghost invariant function with its parameters bound, by name, to the
// target function's variables at the loop header.
func (E *Engine) evalInvariant(fr *Frame, st *State, lp *loop, inv *ssa.Function, override map[ssa.Value]Val) *Term {
	saved := fr.override
	fr.override = override
	defer func() { fr.override = saved }()
	var args []Val
	for _, p := range inv.Params {
		if v := E.resolveParam(fr, st, lp.header, 0, p, inv.Params); v != nil {
			args = append(args, v)
			continue
		}
		args = append(args, E.resolveName(fr, st, lp, p.Name()))
	}
	var tenv TEnv
	if inv.TypeParams() != nil && inv.TypeParams().Len() > 0 {
		tenv = TEnv{}
		otp := originOf(fr.fn).TypeParams()
		for i := 0; i < inv.TypeParams().Len() && otp != nil && i < otp.Len(); i++ {
			tenv[inv.TypeParams().At(i)] = E.subst(otp.At(i), fr.tenv)
		}
	}
	nf := E.newFrame(inv, fr, tenv)
	nf.spec = true
	nf.ghost = true
	nf.invOf = fr
	sub := st.clone()
	sub.reach = E.tb.True()
	vals, _ := E.execFunc(nf, sub, args)
	return vals[0].(*Term)
}

// resolveName finds the value of the target function's variable `name` at the loop header.
func (E *Engine) resolveName(fr *Frame, st *State, lp *loop, name string) Val {
	v := E.resolveNameAt(fr, st, lp.header, 0, name)
	if v == nil {
		var avail []string
		for _, phi := range headerPhis(lp.header) {
			avail = append(avail, phi.Comment)
		}
		E.fail("invariant for %s loop %d: cannot resolve variable %q at the loop header (loop-carried: %s)", fr.fn, lp.ordinal, name, strings.Join(avail, ","))
	}
	return v
}

// resolveNameAt finds the value of the function's variable `name` just before instruction index
// upto of block blk (0: at the start of the block, after its phis).
func (E *Engine) resolveNameAt(fr *Frame, st *State, blk *ssa.BasicBlock, upto int, name string) Val {
	fn := fr.fn
	// latest reference inside the block itself
	for i := upto - 1; i >= 0 && i < len(blk.Instrs); i-- {
		if d, ok := blk.Instrs[i].(*ssa.DebugRef); ok {
			if v := E.debugRefValue(fr, st, d, name); v != nil {
				return v
			}
		}
	}
	// variables merged at this block
	for _, phi := range headerPhis(blk) {
		if phi.Comment == name {
			return E.value(fr, phi)
		}
	}
	lp := &loop{header: blk}
	for _, p := range fn.Params {
		if p.Name() == name {
			// parameters that are reassigned become phis/allocs and are found below via DebugRef first
			if v := E.debugLookup(fr, st, lp, name); v != nil {
				return v
			}
			return E.value(fr, p)
		}
	}
	for _, fv := range fn.FreeVars {
		if fv.Name() == name {
			ptr := E.value(fr, fv).(*Term)
			return E.loadObj(st, ptr, fv.Type().(*types.Pointer).Elem(), fr.tenv)
		}
	}
	if v := E.debugLookup(fr, st, lp, name); v != nil {
		return v
	}
	return nil
}

// debugRefValue: the value a DebugRef gives to the variable name, or nil.
func (E *Engine) debugRefValue(fr *Frame, st *State, d *ssa.DebugRef, name string) Val {
	obj := d.Object()
	if obj == nil || obj.Name() != name {
		return nil
	}
	if _, isVar := obj.(*types.Var); !isVar {
		return nil
	}
	if _, defined := fr.env[d.X]; !defined {
		if _, isConst := d.X.(*ssa.Const); !isConst {
			if _, isG := d.X.(*ssa.Global); !isG {
				return nil
			}
		}
	}
	if d.IsAddr {
		switch a := E.value(fr, d.X).(type) {
		case *Term:
			return E.loadObj(st, a, d.X.Type().(*types.Pointer).Elem(), fr.tenv)
		case *Addr:
			return E.loadAddr(st, a)
		}
		return nil
	}
	return E.value(fr, d.X)
}

// debugLookup walks the dominator chain of the header upwards looking for the latest DebugRef of a
// variable called name.
func (E *Engine) debugLookup(fr *Frame, st *State, lp *loop, name string) Val {
	for b := lp.header.Idom(); b != nil; b = b.Idom() {
		for i := len(b.Instrs) - 1; i >= 0; i-- {
			d, ok := b.Instrs[i].(*ssa.DebugRef)
			if !ok {
				continue
			}
			obj := d.Object()
			if obj == nil || obj.Name() != name {
				continue
			}
			if _, isVar := obj.(*types.Var); !isVar {
				continue
			}
			if _, defined := fr.env[d.X]; !defined {
				if _, isConst := d.X.(*ssa.Const); !isConst {
					if _, isG := d.X.(*ssa.Global); !isG {
						continue
					}
				}
			}
			if d.IsAddr {
				switch a := E.value(fr, d.X).(type) {
				case *Term:
					return E.loadObj(st, a, d.X.Type().(*types.Pointer).Elem(), fr.tenv)
				case *Addr:
					return E.loadAddr(st, a)
				}
				continue
			}
			return E.value(fr, d.X)
		}
		// a variable merged at this block: its phi is the reaching definition
		for _, phi := range headerPhis(b) {
			if phi.Comment == name {
				if _, defined := fr.env[phi]; defined {
					return E.value(fr, phi)
				}
			}
		}
	}
	return nil
}

// resolveParam binds a parameter of a ghost predicate (invariant, call-site assertion) to the target's
// variable of the same name; when there is none - the variable was renamed - to the only variable of the
// target that has the parameter's type and is not named by another parameter of the predicate. A harmless
// rename of a local therefore does not detach the predicate.
func (E *Engine) resolveParam(fr *Frame, st *State, blk *ssa.BasicBlock, upto int, p *ssa.Parameter, siblings []*ssa.Parameter) Val {
	if v := E.resolveNameAt(fr, st, blk, upto, p.Name()); v != nil {
		return v
	}
	taken := map[string]bool{}
	for _, q := range siblings {
		taken[q.Name()] = true
	}
	// first among the variables carried around this loop (the usual case: an accumulator was renamed)
	carried := map[string]bool{}
	for _, phi := range headerPhis(blk) {
		if phi.Comment != "" && !taken[phi.Comment] && types.Identical(phi.Type(), p.Type()) {
			carried[phi.Comment] = true
		}
	}
	if len(carried) == 1 {
		for n := range carried {
			if v := E.resolveNameAt(fr, st, blk, upto, n); v != nil {
				E.note("ghost predicate parameter " + p.Name() + " is bound to " + n + ", the only loop-carried variable of its type in " + shortFn(fr.fn) + " (no variable of that name: renamed?)")
				return v
			}
		}
	}
	cands := map[string]bool{}
	for _, b := range fr.fn.Blocks {
		for _, in := range b.Instrs {
			if d, ok := in.(*ssa.DebugRef); ok {
				if o, ok := d.Object().(*types.Var); ok && !taken[o.Name()] && types.Identical(o.Type(), p.Type()) {
					cands[o.Name()] = true
				}
			}
		}
	}
	for _, q := range fr.fn.Params {
		if !taken[q.Name()] && types.Identical(q.Type(), p.Type()) {
			cands[q.Name()] = true
		}
	}
	if len(cands) != 1 {
		return nil
	}
	for n := range cands {
		if v := E.resolveNameAt(fr, st, blk, upto, n); v != nil {
			E.note("ghost predicate parameter " + p.Name() + " is bound to " + n + ", the only variable of its type in " + shortFn(fr.fn) + " (no variable of that name: renamed?)")
			return v
		}
	}
	return nil
}
