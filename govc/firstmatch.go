package main

import (
	"fmt"
	"go/types"
	"sort"

	"golang.org/x/tools/go/ssa"
	"golang.org/x/tools/go/ssa/ssautil"
)

// govc firstmatch -pkgs ... : zero-annotation sweep for C17. Lists every return inside a loop that ranges
// over a Go map whose result is not a constant and not a boolean: "the first entry that matches wins", where
// "first" is map iteration order. Candidates only: harmless when at most one entry can match.
func cmdFirstMatch(P *Program) {
	type hit struct{ pos, fn, what string }
	var hits []hit
	for fn := range ssautil.AllFunctions(P.prog) {
		if fn.Blocks == nil || P.IsGhost(fn) || fn.Pkg == nil || !P.isSourcePkg(fn.Pkg.Pkg) || fn.Synthetic != "" {
			continue
		}
		for _, b := range fn.Blocks {
			// a block that returns has left the loop: it is "inside" when one of its predecessors is
			inside := false
			for _, p := range b.Preds {
				if inMapRangeLoop(fn, p) {
					inside = true
				}
				for _, pp := range p.Preds {
					if len(p.Instrs) <= 3 && inMapRangeLoop(fn, pp) {
						inside = true
					}
				}
			}
			if !inside {
				continue
			}
			for _, in := range b.Instrs {
				r, ok := in.(*ssa.Return)
				if !ok {
					continue
				}
				for _, v := range r.Results {
					if _, isConst := v.(*ssa.Const); isConst {
						continue
					}
					if bt, ok := v.Type().Underlying().(*types.Basic); ok && bt.Info()&types.IsBoolean != 0 {
						continue
					}
					if types.Identical(v.Type(), types.Universe.Lookup("error").Type()) {
						continue
					}
					hits = append(hits, hit{P.Pos(in.Pos()), shortFn(fn), "returns " + v.Type().String() + " from inside a range over a map"})
					break
				}
			}
		}
	}
	sort.Slice(hits, func(i, j int) bool { return hits[i].pos < hits[j].pos })
	for _, h := range hits {
		fmt.Printf("%s\t%s\t%s\n", h.pos, h.fn, h.what)
	}
	fmt.Printf("%d candidate(s)\n", len(hits))
}
