package main

import (
	"flag"
	"fmt"
	"go/token"
	"go/types"
	"os"
	"regexp"
	"sort"
	"strings"
	"time"

	"golang.org/x/tools/go/ssa"
)

func usage() {
	fmt.Fprintln(os.Stderr, `usage:
  govc verify [-repo DIR] -pkgs p1,p2 [-run REGEX] [-v] [-keep DIR] [-timeout S]
  govc list   [-repo DIR] -pkgs p1,p2
  govc loops  [-repo DIR] -pkgs p1,p2 -fn NAME
  govc check  <PROPERTY> [--tier quick|thorough]`)
	os.Exit(2)
}

func main() {
	if len(os.Args) < 2 {
		usage()
	}
	switch os.Args[1] {
	case "verify", "list", "loops", "maporder", "splitindex", "divzero", "keyreads", "firstmatch":
		cmdVerify(os.Args[1], os.Args[2:])
	case "check":
		os.Exit(cmdCheck(os.Args[2:]))
	case "replay":
		os.Exit(cmdReplay(os.Args[2:]))
	case "run-test":
		// govc run-test <package path> <test file> : run an in-package replay test through an overlay
		if len(os.Args) < 4 {
			usage()
		}
		dir, _ := os.MkdirTemp("", "govc-rt")
		defer os.RemoveAll(dir)
		outcome, raw := runReplayTest(nil, os.Args[2], os.Args[3], dir)
		fmt.Println("replay outcome:", outcome)
		if outcome == "" {
			fmt.Println(tail(raw, 3000))
		}
	case "selftest":
		os.Exit(cmdSelftest(os.Args[2:]))
	default:
		usage()
	}
}

type HarnessResult struct {
	H       *Harness
	Err     string // engine could not process the harness (outside subset, missing target, ...)
	Obls    []*Obligation
	Assume  []string
	Inlined []string
	UsedCtr []string
	Funcs   []string
	WallS   float64
	Instrs  int
	E       *Engine
}

// runHarness symbolically executes one harness and solves its obligations.
func runHarness(P *Program, h *Harness, opt solveOpts) (res *HarnessResult) {
	start := time.Now()
	res = &HarnessResult{H: h}
	E := NewEngine(P)
	E.started = time.Now()
	res.E = E
	E.harness = h
	E.tb.useStrings = h.Strings
	E.noSafety = h.NoSafety
	func() {
		defer func() {
			if r := recover(); r != nil {
				if a, ok := r.(abort); ok {
					res.Err = a.msg
					return
				}
				panic(r)
			}
		}()
		fr := E.newFrame(h.Fn, nil, nil)
		fr.ghost = true
		if h.Kind == "contract" && h.Target != nil {
			fr.proveTarget = originOf(h.Target)
		}
		st := E.newState()
		var args []Val
		for _, p := range h.Fn.Params {
			args = append(args, E.symbolic(fr, st, p.Name(), p.Type()))
		}
		_, out := E.execFunc(fr, st, args)
		if h.Kind == "contract" && fr.oldSt == nil && h.Target != nil {
			E.fail("contract %s never calls its target", h.Name)
		}
		// vacuity: the end of the harness must be reachable under the preconditions
		E.obls = append(E.obls, &Obligation{Name: h.Name + "#cover:end-reachable", Kind: "cover", Goal: E.tb.False(), Reach: out.reach, NFacts: len(E.facts), Harness: h.Name, Cover: true, Fn: h.Fn.String()})
	}()
	res.Obls = E.obls
	res.Instrs = E.instrCount
	for a := range E.assumption {
		res.Assume = append(res.Assume, a)
	}
	sort.Strings(res.Assume)
	for a := range E.inlined {
		res.Inlined = append(res.Inlined, a)
	}
	sort.Strings(res.Inlined)
	for a := range E.usedCtr {
		res.UsedCtr = append(res.UsedCtr, a)
	}
	sort.Strings(res.UsedCtr)
	for a := range E.funcsSeen {
		res.Funcs = append(res.Funcs, a)
	}
	sort.Strings(res.Funcs)
	if res.Err == "" {
		solveAll(E, res.Obls, opt)
	}
	res.WallS = time.Since(start).Seconds()
	return res
}

// symbolic creates an unconstrained, well-typed input value.
func (E *Engine) symbolic(fr *Frame, st *State, name string, t types.Type) Val {
	if _, ok := types.Unalias(t).Underlying().(*types.Signature); ok {
		c := E.tb.Const("in$"+name, SRef)
		if E.harness.PureFuncParams {
			E.pureFns[c] = true
		}
		return c
	}
	v := E.tb.Const("in$"+name, E.sortOf(t, fr.tenv))
	E.addFact(st, E.wellTyped(v, t, fr.tenv))
	E.assumeAllocated(st, v)
	return v
}

func cmdVerify(mode string, argv []string) {
	fs := flag.NewFlagSet(mode, flag.ExitOnError)
	repo := fs.String("repo", "/repo", "repository root")
	pkgs := fs.String("pkgs", "", "comma separated package paths")
	run := fs.String("run", "", "harness name regexp")
	verbose := fs.Bool("v", false, "verbose")
	keep := fs.String("keep", "", "directory to keep SMT queries in")
	timeout := fs.Int("timeout", 20, "per-solver timeout (s)")
	fnName := fs.String("fn", "", "function (loops)")
	solversF := fs.String("solvers", "z3-new,z3,cvc5", "solver order")
	overlayF := fs.String("overlay", "", "comma separated orig=replacement file pairs")
	fs.Parse(argv)
	var overlay map[string][]byte
	if *overlayF != "" {
		overlay = map[string][]byte{}
		for _, pair := range strings.Split(*overlayF, ",") {
			kv := strings.SplitN(pair, "=", 2)
			data, err := os.ReadFile(kv[1])
			if err != nil {
				fmt.Fprintln(os.Stderr, err)
				os.Exit(2)
			}
			overlay[kv[0]] = data
		}
	}
	if *pkgs == "" {
		usage()
	}
	t0 := time.Now()
	P, err := LoadProgram(*repo, strings.Split(*pkgs, ","), overlay)
	if err != nil {
		fmt.Fprintln(os.Stderr, "load:", err)
		os.Exit(2)
	}
	fmt.Fprintf(os.Stderr, "loaded in %.1fs, %d harnesses\n", time.Since(t0).Seconds(), len(P.harness))
	switch mode {
	case "maporder":
		cmdMapOrder(P)
		return
	case "splitindex":
		cmdSplitIndex(P)
		return
	case "divzero":
		cmdDivZero(P)
		return
	case "firstmatch":
		cmdFirstMatch(P)
		return
	case "keyreads":
		cmdKeyReads(P, os.Getenv("GOVC_BUILD_FN"), os.Getenv("GOVC_KEY_FN"), os.Getenv("GOVC_TYPE"))
		return
	case "list":
		for _, n := range P.HarnessNames() {
			h := P.harness[n]
			fmt.Printf("%-50s %-9s %-40s %v\n", n, h.Kind, h.TargetS, h.Props)
		}
		if os.Getenv("GOVC_FIELDS") != "" {
			P.mutOnce.Do(P.computeMutableFields)
			for _, p := range P.pkgs {
				if len(p.Syntax) == 0 || !strings.Contains(p.PkgPath, os.Getenv("GOVC_FIELDS")) {
					continue
				}
				sc := p.Types.Scope()
				for _, n := range sc.Names() {
					if tn, ok := sc.Lookup(n).(*types.TypeName); ok {
						if st, ok := tn.Type().Underlying().(*types.Struct); ok {
							for i := 0; i < st.NumFields(); i++ {
								fmt.Printf("field %s.%s construction-only=%v\n", n, st.Field(i).Name(), P.constructionOnly(st.Field(i)))
							}
						}
					}
				}
			}
		}
		return
	case "loops":
		fn, err := P.FindFunc(nil, *fnName)
		if err != nil {
			for n := range P.byName {
				if strings.Contains(n, *fnName) {
					fmt.Println("candidate:", n)
				}
			}
			fmt.Fprintln(os.Stderr, err)
			os.Exit(2)
		}
		E := NewEngine(P)
		li := E.loops(fn)
		for _, lp := range li.loops {
			var names []string
			for _, phi := range headerPhis(lp.header) {
				names = append(names, phi.Comment+":"+phi.Type().String())
			}
			fmt.Printf("loop %d header block %d at %s loop-carried: %s\n", lp.ordinal, lp.header.Index, P.Pos(firstPos(lp.header)), strings.Join(names, ", "))
		}
		if *verbose {
			fn.WriteTo(os.Stdout)
		}
		return
	}
	dir := *keep
	if dir == "" {
		d, err := os.MkdirTemp("", "govc")
		if err != nil {
			panic(err)
		}
		dir = d
		defer os.RemoveAll(d)
	} else {
		os.MkdirAll(dir, 0o755)
	}
	re := regexp.MustCompile(*run)
	opt := solveOpts{dir: dir, order: strings.Split(*solversF, ","), timeoutS: *timeout, seed: 0, jobs: 12}
	bad := 0
	for _, n := range P.HarnessNames() {
		if !re.MatchString(n) {
			continue
		}
		h := P.harness[n]
		if h.Kind == "iface-contract" {
			continue // trusted, never proved
		}
		r := runHarness(P, h, opt)
		printResult(r, *verbose)
		if *keep != "" && r.E != nil {
			for _, o := range r.Obls {
				if !oblOK(o) && !o.Cover && o.Query != "" {
					os.WriteFile(strings.TrimSuffix(o.Query, ".smt2")+".qf.smt2", []byte(r.E.buildQueryLevel(o, 4)), 0o644)
				}
			}
		}
		if r.Err != "" {
			bad++
		}
		for _, o := range r.Obls {
			if !oblOK(o) {
				bad++
			}
		}
	}
	if bad > 0 {
		os.Exit(1)
	}
}

func firstPos(b *ssa.BasicBlock) token.Pos {
	for _, in := range b.Instrs {
		if in.Pos().IsValid() {
			return in.Pos()
		}
	}
	return token.NoPos
}

func oblOK(o *Obligation) bool {
	if o.Cover {
		return o.Result != "unsat"
	}
	return o.Result == "unsat"
}

func printResult(r *HarnessResult, verbose bool) {
	ok, total := 0, 0
	for _, o := range r.Obls {
		total++
		if oblOK(o) {
			ok++
		}
	}
	status := "OK"
	if r.Err != "" {
		status = "ERROR"
	} else if ok != total {
		status = "FAIL"
	}
	fmt.Printf("%-5s %-55s %d/%d obligations, %d instrs, %.1fs\n", status, r.H.Name, ok, total, r.Instrs, r.WallS)
	if r.Err != "" {
		fmt.Printf("      engine: %s\n", r.Err)
	}
	for _, o := range r.Obls {
		if verbose || !oblOK(o) {
			fmt.Printf("      [%-7s %-6s %5dms] %s (%s)\n", o.Result, o.Solver, o.WallMs, o.Name, o.Pos)
			if !oblOK(o) && o.Note != "" {
				fmt.Printf("          %s\n", o.Note)
			}
			if !oblOK(o) && o.Query != "" {
				fmt.Printf("          query: %s\n", o.Query)
			}
		}
	}
	if verbose {
		for _, a := range r.Assume {
			fmt.Printf("      assumes: %s\n", a)
		}
		fmt.Printf("      inlined: %s\n", strings.Join(r.Inlined, ", "))
		fmt.Printf("      contracts used: %s\n", strings.Join(r.UsedCtr, ", "))
	}
}
