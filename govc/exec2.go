package main

import (
	"fmt"
	"go/types"

	"golang.org/x/tools/go/ssa"
)

func (E *Engine) mapType(t types.Type, env TEnv) *types.Map {
	m, ok := types.Unalias(E.subst(t, env)).Underlying().(*types.Map)
	if !ok {
		E.fail("expected map type, got %s", t)
	}
	return m
}

func (E *Engine) lookup(fr *Frame, st *State, t *ssa.Lookup) Val {
	tb := E.tb
	xt := types.Unalias(E.subst(t.X.Type(), fr.tenv)).Underlying()
	if _, ok := xt.(*types.Basic); ok {
		// string index
		s := E.term(fr, t.X)
		i := E.term(fr, t.Index)
		E.safety(fr, st, "index", tb.And(tb.Cmp("<=", tb.Int(0), i), tb.Cmp("<", i, E.strLen(s))), t)
		return E.strAt(s, i)
	}
	mt := E.mapType(t.X.Type(), fr.tenv)
	vs := E.sortOf(mt.Elem(), fr.tenv)
	m := E.term(fr, t.X)
	k := E.term(fr, t.Index)
	dom := E.mapDom(st, m, mt, fr.tenv)
	has := tb.Select(dom, k)
	var v *Term
	if vs == SUnit {
		v = E.unit()
	} else {
		v = tb.Ite(has, tb.Select(E.mapVal(st, m, mt, fr.tenv), k), E.zero(mt.Elem(), fr.tenv))
		E.assumeLoaded(fr, st, v, mt.Elem())
	}
	if t.CommaOk {
		return Tuple{v, has}
	}
	return v
}

func (E *Engine) mapUpdate(fr *Frame, st *State, t *ssa.MapUpdate) {
	tb := E.tb
	mt := E.mapType(t.Map.Type(), fr.tenv)
	vs := E.sortOf(mt.Elem(), fr.tenv)
	m := E.term(fr, t.Map)
	k := E.term(fr, t.Key)
	E.safety(fr, st, "nilmap", tb.Not(tb.Eq(m, E.null())), t)
	dk, dks := E.mdomKey(mt, fr.tenv)
	dh := E.get(st, dk, dks)
	E.set(st, dk, tb.Store(dh, m, tb.Store(tb.Select(dh, m), k, tb.True())))
	E.escape(E.value(fr, t.Value))
	E.escape(E.value(fr, t.Key))
	if vs != SUnit {
		var v *Term
		switch x := E.value(fr, t.Value).(type) {
		case *Term:
			v = x
		case *Closure:
			v = E.closureRef(x)
		default:
			E.fail("map update with %T", x)
		}
		vk, vks := E.mvalKey(mt, fr.tenv)
		vh := E.get(st, vk, vks)
		E.set(st, vk, tb.Store(vh, m, tb.Store(tb.Select(vh, m), k, v)))
	}
}

func (E *Engine) mapDelete(fr *Frame, st *State, m, k *Term, mt *types.Map) {
	tb := E.tb
	dk, dks := E.mdomKey(mt, fr.tenv)
	dh := E.get(st, dk, dks)
	// delete on a nil map is a no-op
	upd := tb.Store(dh, m, tb.Store(tb.Select(dh, m), k, tb.False()))
	E.set(st, dk, tb.Ite(tb.Eq(m, E.null()), dh, upd))
}

func (E *Engine) slice(fr *Frame, st *State, t *ssa.Slice) Val {
	tb := E.tb
	xt := types.Unalias(E.subst(t.X.Type(), fr.tenv)).Underlying()
	opt := func(v ssa.Value, def *Term) *Term {
		if v == nil {
			return def
		}
		return E.term(fr, v)
	}
	switch tt := xt.(type) {
	case *types.Slice:
		s := E.term(fr, t.X)
		lo := opt(t.Low, tb.Int(0))
		hi := opt(t.High, E.slcLen(s))
		mx := opt(t.Max, E.slcCap(s))
		E.safety(fr, st, "slice", tb.And(tb.Cmp("<=", tb.Int(0), lo), tb.Cmp("<=", lo, hi), tb.Cmp("<=", hi, mx), tb.Cmp("<=", mx, E.slcCap(s))), t)
		return E.mkSlice(E.slcArr(s), tb.Arith("+", E.slcOff(s), lo), tb.Arith("-", hi, lo), tb.Arith("-", mx, lo))
	case *types.Basic:
		s := E.term(fr, t.X)
		lo := opt(t.Low, tb.Int(0))
		hi := opt(t.High, E.strLen(s))
		E.safety(fr, st, "slice", tb.And(tb.Cmp("<=", tb.Int(0), lo), tb.Cmp("<=", lo, hi), tb.Cmp("<=", hi, E.strLen(s))), t)
		return E.strSub(s, lo, hi)
	case *types.Pointer:
		arr := types.Unalias(tt.Elem()).Underlying().(*types.Array)
		p := E.term(fr, t.X)
		n := tb.Int(arr.Len())
		lo := opt(t.Low, tb.Int(0))
		hi := opt(t.High, n)
		mx := opt(t.Max, n)
		E.safety(fr, st, "slice", tb.And(tb.Cmp("<=", tb.Int(0), lo), tb.Cmp("<=", lo, hi), tb.Cmp("<=", hi, mx), tb.Cmp("<=", mx, n)), t)
		return E.mkSlice(p, lo, tb.Arith("-", hi, lo), tb.Arith("-", mx, lo))
	}
	E.fail("slice of %s", xt)
	return nil
}

func (E *Engine) strSub(s, lo, hi *Term) *Term {
	tb := E.tb
	if tb.useStrings {
		return tb.App("str.substr", "String", s, lo, tb.Arith("-", hi, lo))
	}
	if v, ok := lo.IntVal(); ok && v == 0 && hi.op == "strlen" && hi.args[0] == s {
		return s
	}
	r := tb.UF("strsub", "Str", s, lo, hi)
	return r
}

func (E *Engine) rangeInstr(fr *Frame, st *State, t *ssa.Range) Val {
	xt := types.Unalias(E.subst(t.X.Type(), fr.tenv)).Underlying()
	switch tt := xt.(type) {
	case *types.Map:
		ks, vs := E.sortOf(tt.Key(), fr.tenv), E.sortOf(tt.Elem(), fr.tenv)
		E.iterCount++
		it := &Iter{isMap: true, m: E.term(fr, t.X), ks: ks, vs: vs, kt: tt.Key(), vt: tt.Elem(), instr: t, mt: E.subst(tt, fr.tenv).(*types.Map),
			visKey: fmt.Sprintf("visited$%d$%s", E.iterCount, sanitize(string(ks)))}
		E.set(st, it.visKey, E.tb.ConstArray(ArraySort(ks, SBool), E.tb.False()))
		fr.iters[t] = it
		return it
	case *types.Basic:
		E.iterCount++
		it := &Iter{str: E.term(fr, t.X), instr: t, visKey: fmt.Sprintf("strpos$%d", E.iterCount)}
		E.set(st, it.visKey, E.tb.Int(0))
		fr.iters[t] = it
		return it
	}
	E.fail("range over %s", xt)
	return nil
}

func (E *Engine) next(fr *Frame, st *State, t *ssa.Next) Val {
	tb := E.tb
	it, ok := E.value(fr, t.Iter).(*Iter)
	if !ok {
		E.fail("next on non-iterator")
	}
	if !it.isMap {
		// string iteration: position advances by an unknown positive rune width
		pos := E.get(st, it.visKey, SInt)
		okT := tb.Cmp("<", pos, E.strLen(it.str))
		w := tb.Fresh("runew", SInt)
		r := tb.Fresh("rune", SInt)
		if !fr.spec {
			E.addFact(st, tb.And(tb.Cmp(">=", w, tb.Int(1)), tb.Cmp("<=", w, tb.Int(4)), tb.Cmp("<=", tb.Arith("+", pos, w), E.strLen(it.str)), tb.Cmp(">=", r, tb.Int(0))))
		}
		E.set(st, it.visKey, tb.Ite(okT, tb.Arith("+", pos, w), pos))
		return Tuple{okT, pos, r}
	}
	vis := E.get(st, it.visKey, ArraySort(it.ks, SBool))
	dom := E.mapDom(st, it.m, it.mt, nil)
	k := tb.Fresh("key", it.ks)
	okT := tb.Fresh("more", SBool)
	// more <=> some key of the current domain has not been visited; the produced key is such a key
	q := tb.BVar("k", it.ks)
	none := tb.Forall([]*Term{q}, tb.Implies(tb.Select(dom, q), tb.Select(vis, q)))
	if fr.spec {
		E.fail("range over map inside specification")
	}
	E.addFact(st, tb.And(
		tb.Implies(okT, tb.And(tb.Select(dom, k), tb.Not(tb.Select(vis, k)))),
		tb.Implies(tb.Not(okT), none)))
	E.set(st, it.visKey, tb.Ite(okT, tb.Store(vis, k, tb.True()), vis))
	var v *Term
	if it.vs == SUnit {
		v = E.unit()
	} else {
		v = tb.Select(E.mapVal(st, it.m, it.mt, nil), k)
		E.assumeLoaded(fr, st, v, it.vt)
	}
	return Tuple{okT, k, v}
}

func (E *Engine) typeAssert(fr *Frame, st *State, t *ssa.TypeAssert) Val {
	tb := E.tb
	x := E.term(fr, t.X)
	at := E.subst(t.AssertedType, fr.tenv)
	var okT *Term
	var v *Term
	if types.IsInterface(at) {
		// interface-to-interface: dynamic type must implement; modelled by an uninterpreted predicate on the tag
		iname := "impl$" + typeName(at)
		okT = tb.And(tb.Not(tb.Eq(E.ifcTag(x), tb.Int(0))), tb.UF(iname, SBool, E.ifcTag(x)))
		if tag, isLit := E.ifcTag(x).IntVal(); isLit && tag != 0 {
			ct := E.typeByID[int(tag)]
			okT = tb.Bool(types.Implements(ct, types.Unalias(at).Underlying().(*types.Interface)))
		}
		if iface, ok := types.Unalias(at).Underlying().(*types.Interface); ok && iface.Empty() {
			okT = tb.Not(tb.Eq(E.ifcTag(x), tb.Int(0)))
		}
		v = x
	} else {
		okT = tb.Eq(E.ifcTag(x), E.typeID(at, fr.tenv))
		v = E.unbox(E.ifcVal(x), E.sortOf(at, fr.tenv))
	}
	if t.CommaOk {
		zero := E.zero(at, fr.tenv)
		return Tuple{tb.Ite(okT, v, zero), okT}
	}
	E.safety(fr, st, "typeassert", okT, t)
	return v
}
