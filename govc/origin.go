package main

import (
	"golang.org/x/tools/go/ssa"
)

// Origin analysis: where can a reference-valued SSA value come from? Either it is freshly
// allocated inside the analysed region, or it is one of a set of values visible on entry to the
// region (parameters, globals, values defined before a loop), or unknown.
type origin struct {
	unknown bool
	fresh   bool
	vals    map[ssa.Value]bool
}

func (o *origin) add(p origin) {
	if p.unknown {
		o.unknown = true
	}
	if p.fresh {
		o.fresh = true
	}
	for v := range p.vals {
		if o.vals == nil {
			o.vals = map[ssa.Value]bool{}
		}
		o.vals[v] = true
	}
}

type retOrigin struct {
	res []origin // per result; vals are the callee's parameters
}

func (E *Engine) valueOrigin(v ssa.Value, inRegion func(ssa.Instruction) bool, seen map[ssa.Value]bool) origin {
	switch v.(type) {
	case *ssa.Parameter, *ssa.Global, *ssa.FreeVar:
		return origin{vals: map[ssa.Value]bool{v: true}}
	case *ssa.Const:
		return origin{} // nil
	}
	in, ok := v.(ssa.Instruction)
	if !ok {
		return origin{unknown: true}
	}
	if !inRegion(in) {
		return origin{vals: map[ssa.Value]bool{v: true}}
	}
	if seen[v] {
		return origin{}
	}
	seen[v] = true
	switch t := v.(type) {
	case *ssa.Alloc, *ssa.MakeMap, *ssa.MakeSlice, *ssa.MakeChan, *ssa.MakeClosure:
		return origin{fresh: true}
	case *ssa.Phi:
		var o origin
		for _, e := range t.Edges {
			o.add(E.valueOrigin(e, inRegion, seen))
		}
		return o
	case *ssa.ChangeType:
		return E.valueOrigin(t.X, inRegion, seen)
	case *ssa.Slice:
		return E.valueOrigin(t.X, inRegion, seen)
	case *ssa.Extract:
		if c, ok := t.Tuple.(*ssa.Call); ok {
			return E.callOrigin(c, t.Index, inRegion, seen)
		}
		return origin{unknown: true}
	case *ssa.Call:
		return E.callOrigin(t, 0, inRegion, seen)
	}
	return origin{unknown: true}
}

func (E *Engine) callOrigin(c *ssa.Call, idx int, inRegion func(ssa.Instruction) bool, seen map[ssa.Value]bool) origin {
	cc := &c.Call
	if cc.IsInvoke() {
		return origin{unknown: true}
	}
	if b, ok := cc.Value.(*ssa.Builtin); ok {
		if b.Name() == "append" {
			o := E.valueOrigin(cc.Args[0], inRegion, seen)
			o.fresh = true
			return o
		}
		return origin{unknown: true}
	}
	var fn *ssa.Function
	switch f := cc.Value.(type) {
	case *ssa.Function:
		fn = f
	case *ssa.MakeClosure:
		fn = f.Fn.(*ssa.Function)
	}
	if fn == nil {
		return origin{unknown: true}
	}
	ro := E.retOriginOf(fn)
	if ro == nil || idx >= len(ro.res) {
		return origin{unknown: true}
	}
	var out origin
	r := ro.res[idx]
	out.unknown = r.unknown
	out.fresh = r.fresh
	body := fn
	if o := fn.Origin(); o != nil && len(o.Blocks) > 0 {
		body = o
	}
	for p := range r.vals {
		pi := -1
		for i, q := range body.Params {
			if q == p {
				pi = i
			}
		}
		if pi < 0 || pi >= len(cc.Args) {
			out.unknown = true
			continue
		}
		out.add(E.valueOrigin(cc.Args[pi], inRegion, seen))
	}
	return out
}

func (E *Engine) retOriginOf(fn *ssa.Function) *retOrigin {
	body := fn
	if o := fn.Origin(); o != nil && len(o.Blocks) > 0 {
		body = o
	}
	if ro, ok := E.retMemo[body]; ok {
		return ro
	}
	if len(body.Blocks) == 0 {
		E.retMemo[body] = nil
		return nil
	}
	n := body.Signature.Results().Len()
	ro := &retOrigin{res: make([]origin, n)}
	E.retMemo[body] = &retOrigin{res: unknownOrigins(n)} // recursion: unknown
	all := func(ssa.Instruction) bool { return true }
	for _, b := range body.Blocks {
		for _, in := range b.Instrs {
			if r, ok := in.(*ssa.Return); ok {
				for i, v := range r.Results {
					ro.res[i].add(E.valueOrigin(v, all, map[ssa.Value]bool{}))
				}
			}
		}
	}
	E.retMemo[body] = ro
	return ro
}

func unknownOrigins(n int) []origin {
	out := make([]origin, n)
	for i := range out {
		out[i].unknown = true
	}
	return out
}
