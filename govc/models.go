package main

import (
	"fmt"
	"go/types"

	"golang.org/x/tools/go/ssa"
)

// Trusted models of library functions (DESIGN §4.4). Each is a contract that is assumed, and is
// listed in the evidence when used.

var modelNames = map[string]bool{
	"strings.HasPrefix": true, "strings.HasSuffix": true, "strings.Contains": true,
	"strings.TrimPrefix": true, "strings.TrimSuffix": true,
	"strings.Compare": true, "strings.EqualFold": false,
	"(time.Time).Before": true, "(time.Time).After": true, "(time.Time).Equal": true, "(time.Time).Compare": true,
	"(time.Time).IsZero": false,
	"(time.Time).Add":    true, "(time.Time).Sub": true,
	"(time.Duration).Seconds": true,
	"time.Now":                true, "time.Until": true, "time.Since": true, "(time.Time).UnixNano": true,
	"math/rand/v2.Float64": true, "math/rand/v2.IntN": true, "math/rand.Float64": true, "math/rand.Intn": true,
	"cmp.Compare":  true,
	"sync.NewCond": true,
	"fmt.Errorf":   true, "errors.New": true,
	"sort.SliceStable": false, "sort.Slice": false, "sort.Strings": false,
}

func (E *Engine) modelled(name string) bool { return modelNames[name] }

func (E *Engine) model(fr *Frame, st *State, name string, fn *ssa.Function, args []Val, instr ssa.Instruction) (Val, bool) {
	if !modelNames[name] {
		return nil, false
	}
	tb := E.tb
	t := func(i int) *Term { return args[i].(*Term) }
	E.note("trusted library model: " + name)
	switch name {
	case "strings.HasPrefix":
		return E.strPrefix(t(1), t(0)), true
	case "strings.HasSuffix":
		return E.strSuffix(t(1), t(0)), true
	case "strings.Contains":
		if tb.useStrings {
			return tb.App("str.contains", SBool, t(0), t(1)), true
		}
		return tb.UF("strcontains", SBool, t(0), t(1)), true
	case "strings.TrimPrefix":
		s, p := t(0), t(1)
		if tb.useStrings {
			return tb.Ite(E.strPrefix(p, s), tb.App("str.substr", "String", s, E.strLen(p), tb.Arith("-", E.strLen(s), E.strLen(p))), s), true
		}
		r := tb.UF("strtrimprefix", "Str", s, p)
		if !fr.spec {
			E.addFact(st, tb.And(
				tb.Implies(tb.Not(E.strPrefix(p, s)), tb.Eq(r, s)),
				tb.Implies(E.strPrefix(p, s), tb.Eq(E.strConcat(p, r), s))))
		}
		return r, true
	case "strings.TrimSuffix":
		s, p := t(0), t(1)
		if tb.useStrings {
			return tb.Ite(E.strSuffix(p, s), tb.App("str.substr", "String", s, tb.Int(0), tb.Arith("-", E.strLen(s), E.strLen(p))), s), true
		}
		r := tb.UF("strtrimsuffix", "Str", s, p)
		if !fr.spec {
			E.addFact(st, tb.And(
				tb.Implies(tb.Not(E.strSuffix(p, s)), tb.Eq(r, s)),
				tb.Implies(E.strSuffix(p, s), tb.Eq(E.strConcat(r, p), s))))
		}
		return r, true
	case "strings.Compare", "cmp.Compare":
		a, b := t(0), t(1)
		if a.sort == E.strSort() {
			return tb.Ite(tb.Eq(a, b), tb.Int(0), tb.Ite(E.strLess(a, b), tb.Int(-1), tb.Int(1))), true
		}
		if a.sort == SInt || a.sort == SReal {
			return tb.Ite(tb.Eq(a, b), tb.Int(0), tb.Ite(tb.App("<", SBool, a, b), tb.Int(-1), tb.Int(1))), true
		}
		return nil, false
	case "fmt.Errorf", "errors.New":
		// a non-nil error whose identity does not matter
		if fr.spec {
			return nil, false
		}
		r := tb.Fresh("err", SIfc)
		E.addFact(st, tb.And(tb.Cmp(">", E.ifcTag(r), tb.Int(0))))
		return r, true
	case "sync.NewCond":
		// a fresh Cond whose L is the given Locker
		ct := fn.Signature.Results().At(0).Type().(*types.Pointer).Elem()
		r := E.newRef(st, "cond", fr.spec)
		E.storeObj(st, r, ct, E.zero(ct, nil), nil)
		si := E.structInfoOf(ct, nil)
		for i := 0; i < si.st.NumFields(); i++ {
			if si.st.Field(i).Name() == "L" {
				k, ks := E.fieldKey(si, i)
				E.set(st, k, tb.Store(E.get(st, k, ks), r, t(0)))
			}
		}
		return r, true
	case "(time.Time).Add":
		// the instant moves by d (saturation at the ends of the representable range is ignored)
		r := tb.UF("time$add", t(0).sort, t(0), t(1))
		ax := tb.Eq(E.timeKey(r), tb.Arith("+", E.timeKey(t(0)), t(1)))
		if r.bound {
			x, d := tb.BVar("t", t(0).sort), tb.BVar("d", SInt)
			rr := tb.UF("time$add", t(0).sort, x, d)
			tb.AddAxiom("time$add", tb.Forall([]*Term{x, d}, tb.Eq(E.timeKey(rr), tb.Arith("+", E.timeKey(x), d))), "time$add")
		} else {
			tb.AddTermAxiom(fmt.Sprintf("time$add#%d", r.id), ax, r)
		}
		return r, true
	case "time.Now", "time.Until", "time.Since":
		// a ghost clock that never runs backwards: every reading is at or after the previous one
		// (in specifications the clock is read without advancing)
		E.heapSorts["time$clock"] = SInt
		prev := E.get(st, "time$clock", SInt)
		now := prev
		if !fr.spec {
			now = tb.Fresh("now", SInt)
			E.addFact(st, tb.Cmp(">=", now, prev))
			E.set(st, "time$clock", now)
		}
		switch name {
		case "time.Until":
			return tb.Arith("-", E.timeKey(t(0)), now), true
		case "time.Since":
			return tb.Arith("-", now, E.timeKey(t(0))), true
		}
		ts := E.sortOf(fn.Signature.Results().At(0).Type(), nil)
		r := tb.UF("time$at", ts, now)
		tb.AddTermAxiom(fmt.Sprintf("time$at#%d", r.id), tb.Eq(E.timeKey(r), now), r)
		return r, true
	case "math/rand/v2.Float64", "math/rand.Float64":
		if fr.spec {
			return nil, false
		}
		r := tb.Fresh("rand", SReal)
		E.addFact(st, tb.And(tb.Cmp(">=", r, tb.Real("0.0")), tb.Cmp("<", r, tb.Real("1.0"))))
		return r, true
	case "math/rand/v2.IntN", "math/rand.Intn":
		if fr.spec {
			return nil, false
		}
		r := tb.Fresh("rand", SInt)
		E.addFact(st, tb.And(tb.Cmp(">=", r, tb.Int(0)), tb.Cmp("<", r, t(0))))
		return r, true
	case "(time.Time).UnixNano":
		// the instant in nanoseconds, assumed representable (years 1678..2262)
		r := E.timeKey(t(0))
		if !r.bound {
			tb.AddTermAxiom(fmt.Sprintf("unixnano#%d", r.id), tb.And(tb.Cmp(">=", r, tb.Int(-9223372036854775808)), tb.Cmp("<=", r, tb.Int(9223372036854775807))), r)
		}
		return r, true
	case "(time.Duration).Seconds":
		// exact in the reals (float64 rounding of very long durations is ignored)
		return tb.App("/", SReal, tb.App("to_real", SReal, t(0)), tb.Real("1000000000.0")), true
	case "(time.Time).Sub":
		return tb.Arith("-", E.timeKey(t(0)), E.timeKey(t(1))), true
	case "(time.Time).Before":
		return tb.Cmp("<", E.timeKey(t(0)), E.timeKey(t(1))), true
	case "(time.Time).After":
		return tb.Cmp(">", E.timeKey(t(0)), E.timeKey(t(1))), true
	case "(time.Time).Equal":
		return tb.Eq(E.timeKey(t(0)), E.timeKey(t(1))), true
	case "(time.Time).Compare":
		a, b := E.timeKey(t(0)), E.timeKey(t(1))
		return tb.Ite(tb.Eq(a, b), tb.Int(0), tb.Ite(tb.Cmp("<", a, b), tb.Int(-1), tb.Int(1))), true
	}
	return nil, false
}

// timeKey: the instant a time.Time denotes, as an integer (total order; Before/After/Equal/Compare
// agree with it). Two Time values with equal instants may differ as structs (location, monotonic).
func (E *Engine) timeKey(t *Term) *Term {
	return E.tb.UF("time$instant", SInt, t)
}

func (E *Engine) strPrefix(p, s *Term) *Term {
	tb := E.tb
	if tb.useStrings {
		return tb.App("str.prefixof", SBool, p, s)
	}
	if p == E.strLit("") {
		return tb.True()
	}
	return tb.UF("strprefixof", SBool, p, s)
}

func (E *Engine) strSuffix(p, s *Term) *Term {
	tb := E.tb
	if tb.useStrings {
		return tb.App("str.suffixof", SBool, p, s)
	}
	if p == E.strLit("") {
		return tb.True()
	}
	return tb.UF("strsuffixof", SBool, p, s)
}
