package main

import (
	"go/types"

	"golang.org/x/tools/go/ssa"
	"golang.org/x/tools/go/ssa/ssautil"
)

// Construction-only fields (DESIGN §4.3, assumption E12).
//
// An unexported field of a struct type defined in a package that is loaded from source can only be
// assigned by code of that package. If every assignment to it in that package (a field store, a
// store of a whole struct value, or taking the field's address for any use other than a load)
// targets an object allocated in the same function, the field of an object that already exists
// never changes: unknown calls (external libraries, interface calls) keep it. Reflection and
// package unsafe are not considered, and a constructor that publishes the object before it
// finishes assigning is assumed not to race with readers.

func (P *Program) computeMutableFields() {
	P.mutableField = map[*types.Var]bool{}
	P.sourcePkg = map[*types.Package]bool{}
	for _, p := range P.pkgs {
		if len(p.Syntax) > 0 && p.Types != nil {
			P.sourcePkg[p.Types] = true
		}
	}
	for fn := range ssautil.AllFunctions(P.prog) {
		if fn.Blocks == nil || P.IsGhost(fn) {
			continue
		}
		for _, b := range fn.Blocks {
			for _, in := range b.Instrs {
				switch x := in.(type) {
				case *ssa.Store:
					P.noteStore(x.Addr)
				case *ssa.FieldAddr:
					if fieldAddrEscapes(x) {
						P.markField(x)
					}
				}
			}
		}
	}
}

func allocRoot(v ssa.Value) bool {
	for {
		switch x := v.(type) {
		case *ssa.FieldAddr:
			v = x.X
		case *ssa.Alloc:
			return true
		default:
			return false
		}
	}
}

func fieldOf(fa *ssa.FieldAddr) *types.Var {
	pt, ok := types.Unalias(fa.X.Type()).Underlying().(*types.Pointer)
	if !ok {
		return nil
	}
	st, ok := types.Unalias(pt.Elem()).Underlying().(*types.Struct)
	if !ok || fa.Field >= st.NumFields() {
		return nil
	}
	return st.Field(fa.Field).Origin()
}

func (P *Program) markField(fa *ssa.FieldAddr) {
	if f := fieldOf(fa); f != nil {
		P.mutableField[f] = true
	}
}

func (P *Program) markAllFields(t types.Type, depth int) {
	st, ok := types.Unalias(t).Underlying().(*types.Struct)
	if !ok || depth > 6 {
		return
	}
	for i := 0; i < st.NumFields(); i++ {
		f := st.Field(i)
		P.mutableField[f.Origin()] = true
		P.markAllFields(f.Type(), depth+1)
	}
}

func (P *Program) noteStore(addr ssa.Value) {
	if allocRoot(addr) {
		return
	}
	if fa, ok := addr.(*ssa.FieldAddr); ok {
		P.markField(fa)
	}
	// a store of a whole struct (or array of structs) value overwrites every field
	if pt, ok := types.Unalias(addr.Type()).Underlying().(*types.Pointer); ok {
		el := pt.Elem()
		if at, ok := types.Unalias(el).Underlying().(*types.Array); ok {
			el = at.Elem()
		}
		P.markAllFields(el, 0)
	}
}

// fieldAddrEscapes: the field's address is used for something other than loading from it, storing
// to it (handled by noteStore) or addressing a sub-field / element.
func fieldAddrEscapes(fa *ssa.FieldAddr) bool {
	if allocRoot(fa) {
		return false
	}
	refs := fa.Referrers()
	if refs == nil {
		return true
	}
	for _, r := range *refs {
		switch u := r.(type) {
		case *ssa.UnOp:
			// load
		case *ssa.Store:
			if u.Val == ssa.Value(fa) {
				return true
			}
		case *ssa.FieldAddr:
			// sub-field: judged on its own (a store through it marks the inner field; the outer
			// field of struct type is marked by the whole-struct rule only)
			if fieldAddrEscapes(u) {
				return true
			}
		case *ssa.DebugRef:
		default:
			return true
		}
	}
	return false
}

// constructionOnly reports whether field f (of a struct in a source-loaded package) is never
// assigned after construction.
func (P *Program) constructionOnly(f *types.Var) bool {
	P.mutOnce.Do(P.computeMutableFields)
	if f == nil || f.Exported() || f.Pkg() == nil || !P.sourcePkg[f.Pkg()] {
		return false
	}
	return !P.mutableField[f.Origin()]
}
