package main

import (
	"fmt"
	"go/ast"
	"go/token"
	"go/types"
	"os"
	"path/filepath"
	"sort"
	"strconv"
	"strings"
	"sync"

	"golang.org/x/tools/go/packages"
	"golang.org/x/tools/go/ssa"
	"golang.org/x/tools/go/ssa/ssautil"
)

// Program is the loaded code under verification: SSA of the packages under contract (built from
// /repo's working tree with -tags=verif) plus the directives found in the guarded contract files.
type Program struct {
	fset   *token.FileSet
	pkgs   []*packages.Package
	prog   *ssa.Program
	ssaPkg map[string]*ssa.Package

	ghostFiles     map[string]bool            // file names carrying //go:build verif
	harness        map[string]*Harness        // by short name
	contracts      map[*ssa.Function]*Harness // target (origin) -> contract harness
	invariants     map[*ssa.Function]map[int]*ssa.Function
	inline         map[*ssa.Function]bool
	opaque         map[*ssa.Function]bool
	pureFns        map[*ssa.Function]bool
	strTheory      map[*ssa.Function]bool
	loadErrs       []string
	byName         map[string]*ssa.Function
	ifaceContracts map[string]*Harness
	waitInv        map[*ssa.Function]*ssa.Function // monitor invariant re-assumed after (*sync.Cond).Wait
	pureMethods    map[string]bool
	callAsserts    map[*ssa.Function][]*callAssert
	mutableField   map[*types.Var]bool
	sourcePkg      map[*types.Package]bool
	mutOnce        sync.Once
	funcVars       map[*ssa.Global]*ssa.Function
	funcVarOnce    sync.Once
}

// callAssert: a ghost predicate that must hold at a particular call inside a function.
type callAssert struct {
	callee  string // name of the called function or interface method
	ordinal int    // 0-based, among the calls of that name in the function
	fn      *ssa.Function
	label   string
}

type Harness struct {
	Name     string // pkgpath-relative unique name: "<pkg last elem>.<func>"
	Fn       *ssa.Function
	Kind     string // "contract" | "lemma"
	Target   *ssa.Function
	TargetS  string
	Props    []string
	Trusted  bool // contract is assumed, not proved (externals)
	Strings  bool // use SMT string theory
	File     string
	Line     int
	Expect   map[string]string // obligation label -> "fail" for canaries (known findings)
	NoSafety bool
	Bounded  string
	Writes   []string
	// NonBlocking: (*sync.Cond).Wait ends the path (the contract covers executions that do not block).
	NonBlocking bool
	// WritesNothing: trusted frame - where this contract is used, the target is assumed to write no
	// memory visible to the caller (listed as an assumption).
	WritesNothing bool
	// PureFuncParams: function-typed parameters of the target are pure (no effect, result a function of
	// the arguments); checked syntactically for the closure handed over wherever the contract is used.
	PureFuncParams bool
	// InlineTargets: functions whose body is executed in this harness even though they have a contract.
	InlineTargets map[*ssa.Function]bool
}

var supportPkgs = []string{
	"istio.io/istio/pkg/util/sets",
	"istio.io/istio/pkg/slices",
	"istio.io/istio/pkg/maps",
	"istio.io/istio/pkg/ptr",
	"istio.io/istio/pkg/verif",
}

func goEnv() []string {
	// the go command is looked up in this process's PATH
	if !strings.HasPrefix(os.Getenv("PATH"), "/opt/veriftools/go1.26.8/bin:") {
		os.Setenv("PATH", "/opt/veriftools/go1.26.8/bin:"+os.Getenv("PATH"))
	}
	os.Setenv("GOFLAGS", "-mod=mod")
	os.Setenv("GOPROXY", "off")
	os.Setenv("GOSUMDB", "off")
	os.Setenv("GOTOOLCHAIN", "local")
	return os.Environ()
}

func LoadProgram(repo string, pkgPaths []string, overlay map[string][]byte) (*Program, error) {
	want := map[string]bool{}
	var pats []string
	for _, p := range append(append([]string{}, pkgPaths...), supportPkgs...) {
		if !want[p] {
			want[p] = true
			pats = append(pats, p)
		}
	}
	cfg := &packages.Config{
		Mode: packages.NeedName | packages.NeedFiles | packages.NeedCompiledGoFiles | packages.NeedImports |
			packages.NeedTypes | packages.NeedSyntax | packages.NeedTypesInfo | packages.NeedTypesSizes | packages.NeedModule,
		Dir:        repo,
		Env:        goEnv(),
		BuildFlags: []string{"-tags=verif"},
		Overlay:    overlay,
	}
	pkgs, err := packages.Load(cfg, pats...)
	if err != nil {
		return nil, err
	}
	P := &Program{
		ghostFiles:     map[string]bool{},
		harness:        map[string]*Harness{},
		contracts:      map[*ssa.Function]*Harness{},
		invariants:     map[*ssa.Function]map[int]*ssa.Function{},
		inline:         map[*ssa.Function]bool{},
		opaque:         map[*ssa.Function]bool{},
		pureFns:        map[*ssa.Function]bool{},
		strTheory:      map[*ssa.Function]bool{},
		ssaPkg:         map[string]*ssa.Package{},
		byName:         map[string]*ssa.Function{},
		ifaceContracts: map[string]*Harness{},
		waitInv:        map[*ssa.Function]*ssa.Function{},
		pureMethods:    map[string]bool{},
		callAsserts:    map[*ssa.Function][]*callAssert{},
	}
	for _, p := range pkgs {
		for _, e := range p.Errors {
			P.loadErrs = append(P.loadErrs, p.PkgPath+": "+e.Error())
		}
	}
	if len(P.loadErrs) > 0 {
		return P, fmt.Errorf("load errors:\n%s", strings.Join(P.loadErrs, "\n"))
	}
	P.pkgs = pkgs
	if len(pkgs) > 0 {
		P.fset = pkgs[0].Fset
	}
	prog, spkgs := ssautil.Packages(pkgs, ssa.InstantiateGenerics|ssa.GlobalDebug)
	P.prog = prog
	for i, sp := range spkgs {
		if sp == nil {
			return P, fmt.Errorf("no SSA for %s", pkgs[i].PkgPath)
		}
		sp.Build()
		P.ssaPkg[pkgs[i].PkgPath] = sp
	}
	// index functions by name
	for fn := range ssautil.AllFunctions(prog) {
		if fn.Pkg == nil && fn.Origin() == nil {
			continue
		}
		P.byName[fn.String()] = fn
	}
	// ghost files + directives
	for _, p := range pkgs {
		for _, f := range p.Syntax {
			fname := P.fset.Position(f.Pos()).Filename
			if !isGhostFile(f) {
				continue
			}
			P.ghostFiles[fname] = true
			if err := P.scanDirectives(p, f); err != nil {
				return P, err
			}
		}
	}
	return P, nil
}

func isGhostFile(f *ast.File) bool {
	for _, cg := range f.Comments {
		if cg.Pos() > f.Package {
			break
		}
		for _, c := range cg.List {
			if strings.HasPrefix(c.Text, "//go:build") && strings.Contains(c.Text, "verif") {
				return true
			}
		}
	}
	return false
}

func (P *Program) IsGhost(fn *ssa.Function) bool {
	for fn.Parent() != nil {
		fn = fn.Parent()
	}
	if o := fn.Origin(); o != nil {
		fn = o
	}
	if fn.Pkg != nil && fn.Pkg.Pkg.Path() == "istio.io/istio/pkg/verif" {
		return true
	}
	pos := fn.Pos()
	if !pos.IsValid() {
		return false
	}
	return P.ghostFiles[P.fset.Position(pos).Filename]
}

// FindFunc resolves a directive target. Accepted forms, relative to pkg:
//
//	Name            package-level function
//	(*T).M  (T).M   method
//	Name$1          anonymous function
//	full/import/path.Name etc.
func (P *Program) FindFunc(pkg *packages.Package, target string) (*ssa.Function, error) {
	if strings.HasPrefix(target, "var:") && pkg != nil {
		// the function literal a package-level variable is initialised with (and never re-assigned)
		if sp := P.ssaPkg[pkg.PkgPath]; sp != nil {
			if g, ok := sp.Members[target[4:]].(*ssa.Global); ok {
				if fn := P.funcVar(g); fn != nil {
					return fn, nil
				}
			}
		}
		return nil, fmt.Errorf("contract-target-missing: %s (package %s): not a function variable assigned only at initialisation", target, pkgPathOf(pkg))
	}
	cands := []string{target}
	if pkg != nil {
		if strings.HasPrefix(target, "(*") {
			cands = append(cands, "(*"+pkg.PkgPath+"."+target[2:])
		} else if strings.HasPrefix(target, "(") {
			cands = append(cands, "("+pkg.PkgPath+"."+target[1:])
		} else {
			cands = append(cands, pkg.PkgPath+"."+target)
		}
	}
	for _, c := range cands {
		if fn, ok := P.byName[c]; ok {
			return fn, nil
		}
	}
	// generic methods print as (pkg.Set[T]).Merge; allow target "(Set).Merge" or "(Set[T]).Merge"
	for name, fn := range P.byName {
		n := name
		if i := strings.Index(n, "["); i >= 0 {
			if j := strings.Index(n, "]"); j > i {
				n2 := n[:i] + n[j+1:]
				for _, c := range cands {
					if n2 == c {
						if o := fn.Origin(); o != nil {
							return o, nil
						}
						return fn, nil
					}
				}
			}
		}
	}
	return nil, fmt.Errorf("contract-target-missing: %s (package %s)", target, pkgPathOf(pkg))
}

func pkgPathOf(p *packages.Package) string {
	if p == nil {
		return "?"
	}
	return p.PkgPath
}

func (P *Program) scanDirectives(pkg *packages.Package, f *ast.File) error {
	sp := P.ssaPkg[pkg.PkgPath]
	// file-level directives: any comment group
	for _, cg := range f.Comments {
		for _, c := range cg.List {
			txt := c.Text
			if !strings.HasPrefix(txt, "//verif:") {
				continue
			}
			fields := strings.Fields(txt[len("//verif:"):])
			if len(fields) == 0 {
				continue
			}
			switch fields[0] {
			case "pure-method":
				// //verif:pure-method <interface type string>.<Method> : calls of this interface method have no
				// effect and return a function of receiver and arguments (a trusted, listed assumption)
				for _, tgt := range fields[1:] {
					P.pureMethods[tgt] = true
				}
			case "quiet-callback":
				// //verif:quiet-callback <Struct>.<field> : calls through this function-typed field have no effect
				// on verified state and return unconstrained values (a trusted, listed assumption)
				for _, tgt := range fields[1:] {
					P.pureMethods["callback:"+tgt] = true
				}
			case "inline", "opaque", "pure":
				for _, tgt := range fields[1:] {
					fn, err := P.FindFunc(pkg, tgt)
					if err != nil {
						return fmt.Errorf("%s: %v", P.fset.Position(c.Pos()), err)
					}
					switch fields[0] {
					case "inline":
						P.inline[fn] = true
					case "opaque":
						P.opaque[fn] = true
					case "pure":
						P.pureFns[fn] = true
					}
				}
			}
		}
	}
	for _, d := range f.Decls {
		fd, ok := d.(*ast.FuncDecl)
		if !ok || fd.Doc == nil {
			continue
		}
		obj, _ := pkg.TypesInfo.Defs[fd.Name].(*types.Func)
		if obj == nil {
			continue
		}
		fn := sp.Prog.FuncValue(obj)
		if fn == nil {
			continue
		}
		var h *Harness
		mk := func() *Harness {
			if h == nil {
				pos := P.fset.Position(fd.Pos())
				h = &Harness{Name: filepath.Base(pkg.PkgPath) + "." + fd.Name.Name, Fn: fn, File: pos.Filename, Line: pos.Line, Expect: map[string]string{}}
			}
			return h
		}
		for _, c := range fd.Doc.List {
			txt := c.Text
			if !strings.HasPrefix(txt, "//verif:") {
				continue
			}
			fields := strings.Fields(txt[len("//verif:"):])
			if len(fields) == 0 {
				continue
			}
			switch fields[0] {
			case "contract", "trusted-contract":
				if len(fields) < 2 {
					return fmt.Errorf("%s: contract needs a target", P.fset.Position(c.Pos()))
				}
				hh := mk()
				hh.Kind = "contract"
				hh.TargetS = fields[1]
				hh.Trusted = fields[0] == "trusted-contract"
				tgt, err := P.FindFunc(pkg, fields[1])
				if err != nil {
					return fmt.Errorf("%s: %v", P.fset.Position(c.Pos()), err)
				}
				hh.Target = tgt
			case "iface-contract":
				// //verif:iface-contract <interface type string>.<Method> : a trusted contract of an interface
				// method (assumed for every implementation; listed as an assumption). The harness takes the
				// receiver and the arguments and calls the method once. The method is treated as having no
				// effect on verified state and returning a function of receiver and arguments.
				if len(fields) < 2 {
					return fmt.Errorf("%s: iface-contract needs <type>.<method>", P.fset.Position(c.Pos()))
				}
				hh := mk()
				hh.Kind = "iface-contract"
				hh.Trusted = true
				hh.TargetS = fields[1]
				P.ifaceContracts[fields[1]] = hh
			case "lemma":
				hh := mk()
				hh.Kind = "lemma"
			case "prop":
				mk().Props = append(mk().Props, fields[1:]...)
			case "theory":
				if len(fields) > 1 && fields[1] == "strings" {
					mk().Strings = true
				}
			case "nosafety":
				mk().NoSafety = true
			case "nonblocking":
				mk().NonBlocking = true
			case "inline-target":
				for _, tg := range fields[1:] {
					tgt, err := P.FindFunc(pkg, tg)
					if err != nil {
						return fmt.Errorf("%s: %v", P.fset.Position(c.Pos()), err)
					}
					if mk().InlineTargets == nil {
						mk().InlineTargets = map[*ssa.Function]bool{}
					}
					mk().InlineTargets[tgt] = true
				}
			case "call-assert":
				// //verif:call-assert <caller> <callee-name> <ordinal> : this ghost predicate must hold at that
				// call; its parameters are bound by name to the caller's variables, arg0..argN to the call's
				// arguments and recv to the receiver of an interface call
				if len(fields) < 4 {
					return fmt.Errorf("%s: call-assert needs caller, callee name and ordinal", P.fset.Position(c.Pos()))
				}
				tgt, err := P.FindFunc(pkg, fields[1])
				if err != nil {
					return fmt.Errorf("%s: %v", P.fset.Position(c.Pos()), err)
				}
				n, err := strconv.Atoi(fields[3])
				if err != nil {
					return fmt.Errorf("%s: bad ordinal", P.fset.Position(c.Pos()))
				}
				P.callAsserts[tgt] = append(P.callAsserts[tgt], &callAssert{callee: fields[2], ordinal: n, fn: fn, label: fd.Name.Name})
			case "writes-nothing":
				mk().WritesNothing = true
			case "pure-func-params":
				mk().PureFuncParams = true
			case "monitor-invariant":
				// //verif:monitor-invariant <target>: this ghost predicate (parameters bound by name to the
				// target's parameters) is asserted before and assumed after every (*sync.Cond).Wait in target
				if len(fields) < 2 {
					return fmt.Errorf("%s: monitor-invariant needs a target", P.fset.Position(c.Pos()))
				}
				tgt, err := P.FindFunc(pkg, fields[1])
				if err != nil {
					return fmt.Errorf("%s: %v", P.fset.Position(c.Pos()), err)
				}
				P.waitInv[tgt] = fn
			case "expect-fail":
				// //verif:expect-fail <obligation-label> : canary, listed in known findings
				for _, l := range fields[1:] {
					mk().Expect[l] = "fail"
				}
			case "invariant":
				// //verif:invariant <target> <ordinal>
				if len(fields) < 3 {
					return fmt.Errorf("%s: invariant needs target and loop ordinal", P.fset.Position(c.Pos()))
				}
				tgt, err := P.FindFunc(pkg, fields[1])
				if err != nil {
					return fmt.Errorf("%s: %v", P.fset.Position(c.Pos()), err)
				}
				n, err := strconv.Atoi(fields[2])
				if err != nil {
					return fmt.Errorf("%s: bad loop ordinal", P.fset.Position(c.Pos()))
				}
				if P.invariants[tgt] == nil {
					P.invariants[tgt] = map[int]*ssa.Function{}
				}
				P.invariants[tgt][n] = fn
			}
		}
		if h != nil && h.Kind != "" {
			if _, dup := P.harness[h.Name]; dup {
				return fmt.Errorf("duplicate harness %s", h.Name)
			}
			P.harness[h.Name] = h
			if h.Kind == "contract" {
				if prev, dup := P.contracts[h.Target]; dup {
					return fmt.Errorf("two contracts for %s: %s and %s", h.TargetS, prev.Name, h.Name)
				}
				P.contracts[h.Target] = h
			}
		}
	}
	return nil
}

func (P *Program) HarnessNames() []string {
	var out []string
	for n := range P.harness {
		out = append(out, n)
	}
	sort.Strings(out)
	return out
}

func (P *Program) Pos(p token.Pos) string {
	if !p.IsValid() {
		return "?"
	}
	pos := P.fset.Position(p)
	return fmt.Sprintf("%s:%d", strings.TrimPrefix(pos.Filename, "/repo/"), pos.Line)
}

// funcVar: for a package-level variable of function type that is assigned exactly once, in the
// package initialiser, to a function literal or named function, and never anywhere else in the loaded
// non-ghost source: that function. Calls through such a variable are calls of that function.
func (P *Program) funcVar(g *ssa.Global) *ssa.Function {
	P.funcVarOnce.Do(func() {
		P.funcVars = map[*ssa.Global]*ssa.Function{}
		bad := map[*ssa.Global]bool{}
		for fn := range ssautil.AllFunctions(P.prog) {
			if fn.Blocks == nil || P.IsGhost(fn) {
				continue
			}
			isInit := fn.Name() == "init" && fn.Parent() == nil
			for _, b := range fn.Blocks {
				for _, in := range b.Instrs {
					switch x := in.(type) {
					case *ssa.Store:
						gg, ok := x.Addr.(*ssa.Global)
						if !ok {
							continue
						}
						var f *ssa.Function
						switch v := x.Val.(type) {
						case *ssa.Function:
							f = v
						case *ssa.MakeClosure:
							if len(v.Bindings) == 0 {
								f, _ = v.Fn.(*ssa.Function)
							}
						}
						if !isInit || f == nil || P.funcVars[gg] != nil {
							bad[gg] = true
						} else {
							P.funcVars[gg] = f
						}
					default:
						// the address of the variable used for anything but a load
						for _, op := range in.Operands(nil) {
							if gg, ok := (*op).(*ssa.Global); ok {
								if u, isLoad := in.(*ssa.UnOp); !(isLoad && u.Op == token.MUL) {
									bad[gg] = true
								}
							}
						}
					}
				}
			}
		}
		for gg := range bad {
			delete(P.funcVars, gg)
		}
	})
	return P.funcVars[g]
}
