package main

import (
	"fmt"
	"sort"

	"golang.org/x/tools/go/ssa"
	"golang.org/x/tools/go/ssa/ssautil"
)

// govc splitindex -pkgs ... : zero-annotation sweep for crash candidates. Lists every constant index into
// the result of strings.Split / SplitN / Fields (and friends) that is not dominated by a test of the
// result's length. Each hit is a candidate "malformed input panics"; confirmed ones become no-panic
// obligations of a contract on the function.
func cmdSplitIndex(P *Program) {
	type hit struct{ pos, fn, what string }
	var hits []hit
	splitters := map[string]int{ // function -> minimal length of the result
		"strings.Split": 1, "strings.SplitN": 1, "strings.SplitAfter": 1, "strings.SplitAfterN": 1, "strings.Fields": 0, "strings.FieldsFunc": 0,
		"bytes.Split": 1, "bytes.SplitN": 1, "bytes.Fields": 0,
	}
	for fn := range ssautil.AllFunctions(P.prog) {
		if fn.Blocks == nil || P.IsGhost(fn) || fn.Pkg == nil || !P.isSourcePkg(fn.Pkg.Pkg) || fn.Synthetic != "" {
			continue
		}
		dom := func(a, b *ssa.BasicBlock) bool { return a.Dominates(b) }
		for _, b := range fn.Blocks {
			for _, in := range b.Instrs {
				c, ok := in.(*ssa.Call)
				if !ok {
					continue
				}
				f := c.Call.StaticCallee()
				if f == nil || f.Pkg == nil {
					continue
				}
				name := f.Pkg.Pkg.Path() + "." + f.Name()
				minLen, ok := splitters[name]
				if !ok {
					continue
				}
				// blocks in which the length of the result is known to have been looked at
				var lenBlocks []*ssa.BasicBlock
				var uses []ssa.Instruction
				var walk func(v ssa.Value, depth int)
				walk = func(v ssa.Value, depth int) {
					if depth > 3 || v.Referrers() == nil {
						return
					}
					for _, r := range *v.Referrers() {
						switch t := r.(type) {
						case *ssa.Call:
							if bi, ok := t.Call.Value.(*ssa.Builtin); ok && bi.Name() == "len" {
								lenBlocks = append(lenBlocks, t.Block())
							}
						case *ssa.Range:
							// ranged over: indices inside the loop are not constant uses of v
						case *ssa.IndexAddr, *ssa.Index:
							uses = append(uses, r)
						case *ssa.Phi:
							walk(t, depth+1)
						}
					}
				}
				walk(c, 0)
				for _, u := range uses {
					var idx ssa.Value
					switch t := u.(type) {
					case *ssa.IndexAddr:
						idx = t.Index
					case *ssa.Index:
						idx = t.Index
					}
					k, ok := idx.(*ssa.Const)
					if !ok || k.Value == nil {
						continue
					}
					n := int(k.Int64())
					if n < minLen {
						continue // guaranteed by the splitter
					}
					guarded := false
					for _, lb := range lenBlocks {
						if lb == u.Block() || dom(lb, u.Block()) {
							guarded = true
						}
					}
					if !guarded {
						hits = append(hits, hit{P.Pos(u.Pos()), shortFn(fn), fmt.Sprintf("index %d into the result of %s without a dominating length test", n, name)})
					}
				}
			}
		}
	}
	sort.Slice(hits, func(i, j int) bool { return hits[i].pos < hits[j].pos })
	for _, h := range hits {
		fmt.Printf("%s\t%s\t%s\n", h.pos, h.fn, h.what)
	}
	fmt.Printf("%d candidate(s)\n", len(hits))
}
