package main

import (
	"context"
	"encoding/json"
	"fmt"
	"os"
	"path/filepath"
	"sort"
	"strconv"
	"strings"
	"time"
)

// ---------------------------------------------------------------------------------------------
// govc check <PROPERTY> --tier quick|thorough : the registered check of one property.
// ---------------------------------------------------------------------------------------------

type PropConfig struct {
	Pkgs        []string `json:"pkgs"`
	NotDecided  []string `json:"not_decided"`
	Technique   string   `json:"technique"`
	FrameChecks []string `json:"frame_checks,omitempty"`
}

type KnownFinding struct {
	Property   string `json:"property"`
	Obligation string `json:"obligation"` // obligation name (may end in * as a prefix match)
	Status     string `json:"status"`     // known | fixed
	Commit     string `json:"commit,omitempty"`
	What       string `json:"what"`
	Signature  string `json:"signature,omitempty"` // name of the companion obligation that pins the failing input
}

type EvObl struct {
	Name    string `json:"name"`
	Kind    string `json:"kind"`
	Fn      string `json:"function,omitempty"`
	Pos     string `json:"pos,omitempty"`
	Backend string `json:"backend"`
	Result  string `json:"result"`
	WallMs  int64  `json:"wall_ms"`
}

func verifDir() string {
	if d := os.Getenv("VERIF_DIR"); d != "" {
		return d
	}
	exe, err := os.Executable()
	if err == nil {
		return filepath.Dir(filepath.Dir(exe))
	}
	return "/verif"
}

func loadJSON(path string, v interface{}) error {
	data, err := os.ReadFile(path)
	if err != nil {
		return err
	}
	return json.Unmarshal(data, v)
}

func cmdCheck(argv []string) int {
	if len(argv) < 1 {
		usage()
	}
	id := argv[0]
	tier := os.Getenv("VERIF_TIER")
	if tier == "" {
		tier = "quick"
	}
	updateLedger := false
	repo := "/repo"
	for i := 1; i < len(argv); i++ {
		switch argv[i] {
		case "--tier":
			if i+1 < len(argv) {
				tier = argv[i+1]
				i++
			}
		case "--update-ledger":
			updateLedger = true
		case "--repo":
			if i+1 < len(argv) {
				repo = argv[i+1]
				i++
			}
		}
	}
	seed := 0
	if s := os.Getenv("VERIF_SEED"); s != "" {
		seed, _ = strconv.Atoi(s)
	}
	vd := verifDir()
	start := time.Now()
	var props map[string]PropConfig
	if err := loadJSON(filepath.Join(vd, "props.json"), &props); err != nil {
		fmt.Fprintln(os.Stderr, "props.json:", err)
		return 2
	}
	pc, ok := props[id]
	if !ok {
		fmt.Fprintf(os.Stderr, "property %s is not claimed (see MANIFEST not_applicable)\n", id)
		return 2
	}
	var known []KnownFinding
	_ = loadJSON(filepath.Join(vd, "known_findings.json"), &known)
	var ledger []string
	_ = loadJSON(filepath.Join(vd, "ledger", id+".json"), &ledger)
	inLedger := map[string]bool{}
	for _, n := range ledger {
		inLedger[n] = true
	}

	replayDir := filepath.Join(vd, "replays", id)
	os.MkdirAll(replayDir, 0o755)
	os.MkdirAll(filepath.Join(vd, "evidence"), 0o755)
	qdir, err := os.MkdirTemp("", "govc-"+id)
	if err != nil {
		fmt.Fprintln(os.Stderr, err)
		return 2
	}
	defer os.RemoveAll(qdir)

	type violation struct {
		obl    string
		reason string
		replay string
		found  bool
	}
	var viols []violation
	var knownLines []string
	writeReplay := func(name string, payload map[string]interface{}) string {
		p := filepath.Join(replayDir, sanitizeFile(name)+".json")
		data, _ := json.MarshalIndent(payload, "", " ")
		os.WriteFile(p, data, 0o644)
		return p
	}

	P, err := LoadProgram(repo, pc.Pkgs, nil)
	if err != nil {
		// the contract files no longer fit the code (a contract target disappeared or changed shape)
		p := writeReplay("load", map[string]interface{}{"property": id, "obligation": "load", "reason": "contract-target-missing or contract file does not compile against the tree", "output": err.Error()})
		fmt.Printf("VIOLATION property=%s replay=%s no-failing-input-found\n", id, p)
		writeEvidence(vd, id, tier, seed, nil, nil, nil, nil, nil, 1, time.Since(start).Seconds(), pc, []string{"load failed: " + err.Error()})
		return 1
	}
	var hs []*Harness
	for _, n := range P.HarnessNames() {
		h := P.harness[n]
		for _, p := range h.Props {
			if p == id {
				hs = append(hs, h)
				break
			}
		}
	}
	if len(hs) == 0 {
		fmt.Fprintf(os.Stderr, "no harness serves %s\n", id)
		return 2
	}
	order := []string{"z3-new", "cvc5"}
	timeout := 25
	if tier == "thorough" {
		timeout = 60
		order = []string{"z3-new", "cvc5", "z3"}
	}
	opt := solveOpts{dir: qdir, order: order, timeoutS: timeout, seed: seed, jobs: 6}

	var all []EvObl
	cexBudget := 4
	var results []*HarnessResult
	assume := map[string]bool{}
	funcs := map[string]bool{}
	inlined := map[string]bool{}
	contractsUsed := map[string]bool{}
	nObl, nDis := 0, 0
	var specifiedNotProved []string
	for _, h := range hs {
		r := runHarness(P, h, opt)
		results = append(results, r)
		for _, a := range r.Assume {
			assume[a] = true
		}
		for _, f := range r.Funcs {
			funcs[f] = true
		}
		for _, f := range r.Inlined {
			inlined[f] = true
		}
		for _, f := range r.UsedCtr {
			contractsUsed[f] = true
		}
		if r.Err != "" {
			reason := "outside-subset: " + r.Err
			if strings.Contains(r.Err, "contract-target-missing") {
				reason = r.Err
			}
			p := writeReplay(h.Name+"#engine", map[string]interface{}{"property": id, "obligation": h.Name + "#engine", "reason": reason})
			viols = append(viols, violation{h.Name + "#engine", reason, p, false})
			continue
		}
		// retry undecided obligations once with larger limits before calling them regressed
		var retry []*Obligation
		for _, o := range r.Obls {
			if !o.Cover && o.Result != "unsat" && o.Result != "sat" {
				if isSpecifiedNotProved(vd, id, o.Name) {
					continue // written, never discharged on the unchanged tree, not claimed
				}
				o.Result = ""
				retry = append(retry, o)
			}
		}
		if len(retry) > 40 {
			// very many obligations undecided at once (a broken function, not a loaded machine): retrying all
			// of them at large limits would take very long; the first forty decide the verdict
			retry = retry[:40]
		}
		if len(retry) > 0 {
			// re-run the harness's engine for these queries at thorough limits: rebuild through runHarness is
			// avoided; queries are still on disk
			ropt := opt
			ropt.timeoutS = timeout * 3
			ropt.order = []string{"z3-new", "z3", "cvc5"}
			resolveFromFiles(retry, ropt)
		}
		for _, o := range r.Obls {
			if o.Cover {
				// vacuity: only a refutation is a failure, and it is a failure of the check, not of istio
				if o.Result == "unsat" {
					p := writeReplay(o.Name, map[string]interface{}{"property": id, "obligation": o.Name, "reason": "vacuity: the end of the contract is unreachable under its preconditions"})
					viols = append(viols, violation{o.Name, "reach:end unreachable (postconditions hold vacuously)", p, false})
				}
				continue
			}
			all = append(all, EvObl{o.Name, o.Kind, shortName(o.Fn), o.Pos, o.Solver, map[string]string{"unsat": "discharged"}[o.Result] + map[bool]string{true: "", false: o.Result}[o.Result == "unsat"], o.WallMs})
			kf := matchKnown(known, id, o.Name)
			switch {
			case o.Result == "unsat":
				if kf != nil && kf.Status == "known" {
					// the listed finding has disappeared: informational
					fmt.Printf("NOTE: known finding no longer present: property=%s %s\n", id, o.Name)
				}
				nObl++
				nDis++
			case kf != nil && kf.Status == "known":
				knownLines = append(knownLines, fmt.Sprintf("KNOWN-FINDING: property=%s %s: %s", id, o.Name, kf.What))
			default:
				if o.Result != "sat" && isSpecifiedNotProved(vd, id, o.Name) {
					// never proved on the unchanged tree either: specified, not proved, not claimed
					specifiedNotProved = append(specifiedNotProved, o.Name)
					continue
				}
				nObl++
				reason := "obligation fails: solver found a counterexample"
				if o.Result != "sat" {
					reason = "obligation regressed: no solver discharges it any more (" + o.Note + ")"
					if !inLedger[o.Name] {
						reason = "new-obligation-undischarged: " + o.Note
					}
				}
				payload := map[string]interface{}{"property": id, "obligation": o.Name, "kind": o.Kind, "function": o.Fn, "pos": o.Pos,
					"solver": o.Solver, "result": o.Result, "reason": reason, "harness": o.Harness}
				found := false
				if o.Result == "sat" {
					payload["model"] = trimModel(o.Model)
					if rp := tryReplay(P, r, o, vd, id, payload); rp {
						found = true
					}
				} else {
					payload["solver_output"] = o.Note
					// counterexample search: the obligation without its quantified facts often has a model; it
					// is only a candidate input, the replay on the real code decides
					if cexBudget > 0 && r.E != nil && (o.Kind == "safe" || o.Kind == "post" || o.Kind == "assert") {
						cexBudget--
						qf := filepath.Join(qdir, "cex_"+sanitizeFile(o.Name)+".smt2")
						if err := os.WriteFile(qf, []byte(r.E.buildQueryLevel(o, 4)), 0o644); err == nil {
							if sr := runSolverCtx(context.Background(), "z3-new", qf, 15, seed); sr.status == "sat" {
								saved := o.Query
								o.Query = qf
								if tryReplay(P, r, o, vd, id, payload) {
									found = true
									payload["note"] = "input found by searching the obligation without its quantified facts and confirmed by the replay"
								}
								o.Query = saved
							}
						}
					}
				}
				if o.Query != "" {
					if q, err := os.ReadFile(o.Query); err == nil && len(q) < 400000 {
						qp := filepath.Join(replayDir, sanitizeFile(o.Name)+".smt2")
						os.WriteFile(qp, q, 0o644)
						payload["query"] = qp
					}
				}
				if !found && isSpecifiedNotProved(vd, id, o.Name) {
					// an obligation that was never proved on the unchanged tree and is not part of any claim: a
					// solver model for it that does not replay on the real code is no evidence of a defect
					specifiedNotProved = append(specifiedNotProved, o.Name)
					nObl--
					continue
				}
				p := writeReplay(o.Name, payload)
				viols = append(viols, violation{o.Name, reason, p, found})
			}
		}
	}
	// flow obligations (frame back end)
	var flows []FlowCheck
	_ = loadJSON(filepath.Join(vd, "flowchecks.json"), &flows)
	for _, fc := range flows {
		if fc.Property != id {
			continue
		}
		t0 := time.Now()
		fr := runFlowCheck(P, fc)
		name := "flow#" + fc.Name
		result := "discharged"
		nObl++
		if fr.ok {
			nDis++
			if kf := matchKnown(known, id, name); kf != nil && kf.Status == "known" {
				fmt.Printf("NOTE: known finding no longer present: property=%s %s\n", id, name)
			}
		} else {
			result = "fails"
			reason := fr.path
			if fr.err != "" {
				reason = fr.err
			}
			kf := matchKnown(known, id, name)
			if kf != nil && kf.Status == "known" && fr.err == "" && kf.Signature == fmt.Sprintf("sites=%d", fr.sites) {
				// a listed finding, at exactly the listed number of sites of this function
				knownLines = append(knownLines, fmt.Sprintf("KNOWN-FINDING: property=%s %s: %s", id, name, kf.What))
				result = "known-finding"
				nObl--
			} else {
				if kf != nil && kf.Status == "known" {
					reason = fmt.Sprintf("not the listed finding (listed %s, found sites=%d): %s", kf.Signature, fr.sites, reason)
				}
				p := writeReplay(name, map[string]interface{}{"property": id, "obligation": name, "kind": "flow", "function": fc.Func, "what": fc.What, "reason": reason,
					"note": "a control-flow path of the real function violates the discipline; there is no input-level replay for a path obligation"})
				viols = append(viols, violation{name, fc.What + ": " + reason, p, false})
			}
		}
		all = append(all, EvObl{name, "flow", shortName(fc.Func), "", "frame", result, time.Since(t0).Milliseconds()})
	}
	// read-set obligations on cache keys (frame back end)
	var keyReads []KeyReads
	_ = loadJSON(filepath.Join(vd, "keyreads.json"), &keyReads)
	for _, kr := range keyReads {
		if kr.Property != id {
			continue
		}
		t0 := time.Now()
		name := "reads#" + kr.Name
		ok, reason := runKeyReads(P, kr)
		result := "discharged"
		nObl++
		if ok {
			nDis++
		} else {
			result = "fails"
			p := writeReplay(name, map[string]interface{}{"property": id, "obligation": name, "kind": "reads", "function": kr.Build, "what": kr.What, "reason": reason,
				"note": "a read-set obligation over the SSA of the real functions; there is no input-level replay"})
			viols = append(viols, violation{name, kr.What + ": " + reason, p, false})
		}
		all = append(all, EvObl{name, "reads", shortName(kr.Build), "", "frame", result, time.Since(t0).Milliseconds()})
	}
	wall := time.Since(start).Seconds()
	if updateLedger {
		var names []string
		for _, r := range results {
			for _, o := range r.Obls {
				if !o.Cover && o.Result == "unsat" {
					names = append(names, o.Name)
				}
			}
		}
		sort.Strings(names)
		os.MkdirAll(filepath.Join(vd, "ledger"), 0o755)
		data, _ := json.MarshalIndent(names, "", " ")
		os.WriteFile(filepath.Join(vd, "ledger", id+".json"), data, 0o644)
		fmt.Printf("ledger/%s.json: %d obligations\n", id, len(names))
	}
	// ledger obligations that vanished: informational
	var assumptions []string
	for a := range assume {
		assumptions = append(assumptions, a)
	}
	sort.Strings(assumptions)
	assumptions = append(assumptions, "termination is not verified", "soundness of the govc engine itself is not proved (guarded by the must-fail corpus, vacuity covers and solver cross-checks)",
		"the go/ssa form built by golang.org/x/tools from /repo's files with -tags=verif is the code that runs")
	for _, nd := range pc.NotDecided {
		assumptions = append(assumptions, "not decided by this check: "+nd)
	}
	evidenceExtra = map[string]interface{}{}
	if tier == "thorough" && len(viols) == 0 {
		// the must-fail corpus: every deliberate or seeded break of this property must fail a named obligation
		patches, _ := filepath.Glob(filepath.Join(vd, "selftest", "mutants", id, "*.patch"))
		seeded, _ := filepath.Glob(filepath.Join(vd, "seeded", id+"-*", "patch.diff"))
		patches = append(patches, seeded...)
		sort.Strings(patches)
		var killed, survived []map[string]string
		for _, mp := range patches {
			ok, detail := runMutant("/repo", mp, id, pc)
			e := map[string]string{"change": strings.TrimPrefix(mp, vd+"/"), "detail": detail}
			if ok {
				killed = append(killed, e)
			} else {
				survived = append(survived, e)
				fmt.Printf("WARNING: must-fail change not detected by the checks of %s: %s (%s)\n", id, e["change"], detail)
			}
		}
		fmt.Printf("%s must-fail corpus: %d of %d changes fail a named obligation\n", id, len(killed), len(patches))
		evidenceExtra["must_fail_corpus_size"] = len(patches)
		evidenceExtra["must_fail_detected"] = killed
		evidenceExtra["must_fail_not_detected"] = survived
		wall = time.Since(start).Seconds()
	}
	writeEvidence(vd, id, tier, seed, all, results, funcs, inlined, contractsUsed, len(viols), wall, pc, assumptions, knownLines, specifiedNotProved, nObl, nDis)
	for _, k := range knownLines {
		fmt.Println(k)
	}
	for _, v := range viols {
		suffix := ""
		if !v.found {
			suffix = " no-failing-input-found"
		}
		fmt.Printf("VIOLATION property=%s replay=%s%s\n", id, v.replay, suffix)
		fmt.Printf("  obligation %s: %s\n", v.obl, v.reason)
	}
	fmt.Printf("%s %s: %d obligations, %d discharged, %d violations, %d known findings, %.1fs\n", id, tier, nObl, nDis, len(viols), len(knownLines), wall)
	if len(viols) > 0 {
		return 1
	}
	return 0
}

func isSpecifiedNotProved(vd, id, name string) bool {
	var snp []string
	if err := loadJSON(filepath.Join(vd, "ledger", id+".unproved.json"), &snp); err != nil {
		return false
	}
	for _, n := range snp {
		if n == name {
			return true
		}
	}
	return false
}

func shortName(s string) string { return strings.ReplaceAll(s, "istio.io/istio/", "") }

func trimModel(m string) string {
	if len(m) > 20000 {
		return m[:20000] + "\n…"
	}
	return m
}

func matchKnown(known []KnownFinding, id, obl string) *KnownFinding {
	for i := range known {
		k := &known[i]
		if k.Property != id {
			continue
		}
		if k.Obligation == obl || (strings.HasSuffix(k.Obligation, "*") && strings.HasPrefix(obl, strings.TrimSuffix(k.Obligation, "*"))) {
			return k
		}
	}
	return nil
}

// resolveFromFiles re-solves obligations whose query files are still on disk.
func resolveFromFiles(obls []*Obligation, opt solveOpts) {
	type res struct {
		o *Obligation
		r solveResult
	}
	ch := make(chan res)
	sem := make(chan bool, 4)
	for _, o := range obls {
		go func(o *Obligation) {
			sem <- true
			defer func() { <-sem }()
			if o.Query == "" {
				ch <- res{o, solveResult{status: "unknown"}}
				return
			}
			var sl []string
			base := strings.TrimSuffix(o.Query, ".smt2")
			for _, lv := range []string{".slice3.smt2", ".slice2.smt2"} {
				if _, err := os.Stat(base + lv); err == nil {
					sl = append(sl, base+lv)
				}
			}
			ch <- res{o, discharge(o.Query, sl, opt.order, opt.timeoutS, opt.seed+1)}
		}(o)
	}
	for range obls {
		x := <-ch
		x.o.Result = x.r.status
		x.o.Solver = x.r.solver
		x.o.WallMs += x.r.ms
		if x.r.status == "sat" {
			x.o.Model = x.r.out
		} else if x.r.status != "unsat" {
			x.o.Note = firstLines(x.r.out, 3)
		}
	}
}

// evidenceExtra: additional coverage keys of the current run (thorough tier).
var evidenceExtra map[string]interface{}

func writeEvidence(vd, id, tier string, seed int, all []EvObl, results []*HarnessResult, funcs, inlined, used map[string]bool, nviol int, wall float64, pc PropConfig, assumptions []string, extra ...interface{}) {
	var knownLines, snp []string
	nObl, nDis := 0, 0
	if len(extra) >= 4 {
		knownLines, _ = extra[0].([]string)
		snp, _ = extra[1].([]string)
		nObl, _ = extra[2].(int)
		nDis, _ = extra[3].(int)
	}
	keys := func(m map[string]bool) []string {
		var out []string
		for k := range m {
			out = append(out, shortName(k))
		}
		sort.Strings(out)
		return out
	}
	byBackend := map[string]int{}
	var solverMs int64
	for _, o := range all {
		byBackend[o.Backend]++
		solverMs += o.WallMs
	}
	var harnesses []map[string]interface{}
	for _, r := range results {
		tgt := ""
		if r.H.Target != nil {
			tgt = shortName(r.H.Target.String())
		}
		harnesses = append(harnesses, map[string]interface{}{"contract": r.H.Name, "kind": r.H.Kind, "target": tgt, "file": strings.TrimPrefix(r.H.File, "/repo/"),
			"ssa_instructions_executed": r.Instrs, "obligations": len(r.Obls), "error": r.Err, "trusted": r.H.Trusted})
	}
	var samples []interface{}
	for _, o := range all {
		samples = append(samples, o)
	}
	if len(samples) == 0 {
		samples = append(samples, "no obligation was generated")
	}
	trusted := []string{"Go compiler and runtime", "golang.org/x/tools/go/ssa (SSA construction)", "z3 4.8.12 / z3 5.1.0 / cvc5 1.0.3", "sync and sync/atomic primitives"}
	for _, a := range assumptions {
		if strings.HasPrefix(a, "trusted") || strings.HasPrefix(a, "calls into") || strings.HasPrefix(a, "getter") || strings.HasPrefix(a, "generated protobuf") {
			trusted = append(trusted, a)
		}
	}
	ev := map[string]interface{}{
		"property_id": id, "tier": tier, "seed": seed, "level": "proof",
		"coverage": map[string]interface{}{
			"obligations": nObl, "discharged": nDis,
			"checker_cmd":                          fmt.Sprintf("./check %s --tier %s", id, tier),
			"trusted_base":                         trusted,
			"samples":                              samples,
			"functions_under_contract":             harnesses,
			"functions_executed_symbolically":      keys(funcs),
			"verified_by_inlining_not_by_contract": keys(inlined),
			"contracts_used_at_call_sites":         keys(used),
			"obligations_by_backend":               byBackend,
			"solver_wall_s":                        float64(solverMs) / 1000.0,
			"specified_not_proved":                 snp,
			"known_findings":                       knownLines,
			"not_decided_clauses":                  pc.NotDecided,
			"technique":                            pc.Technique,
			"explanation":                          "contracts (requires/ensures/invariants) on the real functions in /repo, verification conditions generated from go/ssa of the working tree, one SMT query per obligation, loops cut at inductive invariants (no unrolling, no input bound)",
		},
		"assumptions": assumptions,
		"wall_s":      wall,
		"violations":  nviol,
	}
	for k, v := range evidenceExtra {
		ev["coverage"].(map[string]interface{})[k] = v
	}
	data, _ := json.MarshalIndent(ev, "", " ")
	evDir := filepath.Join(vd, "evidence")
	if d := os.Getenv("GOVC_EVIDENCE_DIR"); d != "" {
		// runs against a deliberately changed tree (seeded changes) keep their evidence apart
		evDir = d
	}
	os.MkdirAll(evDir, 0o755)
	os.WriteFile(filepath.Join(evDir, id+".json"), data, 0o644)
}

// tryReplay is implemented in replay.go
