package main

import (
	"fmt"
	"go/token"
	"go/types"
	"os"
	"sort"
	"strings"

	"golang.org/x/tools/go/ssa"
	"golang.org/x/tools/go/ssa/ssautil"
)

// govc maporder -pkgs ... : zero-annotation sweep for C17. Lists every place where a slice is grown
// (append) inside a loop that ranges over a Go map and is not sorted afterwards in the same function.
// Each hit is a candidate "output depends on map iteration order"; confirmed ones become flow obligations.
func cmdMapOrder(P *Program) {
	type hit struct{ pos, fn, what string }
	var hits []hit
	for fn := range ssautil.AllFunctions(P.prog) {
		if fn.Blocks == nil || P.IsGhost(fn) || fn.Pkg == nil || !P.isSourcePkg(fn.Pkg.Pkg) {
			continue
		}
		if fn.Synthetic != "" {
			continue
		}
		sorted := map[string]bool{} // names of values/fields passed to a sort call anywhere in the function
		for _, b := range fn.Blocks {
			for _, in := range b.Instrs {
				c, ok := in.(ssa.CallInstruction)
				if !ok {
					continue
				}
				f := c.Common().StaticCallee()
				if f == nil || f.Pkg == nil {
					continue
				}
				pk := f.Pkg.Pkg.Path()
				if pk == "sort" || ((pk == "slices" || strings.HasSuffix(pk, "/slices")) && strings.HasPrefix(originOf(f).Name(), "Sort")) {
					for _, a := range c.Common().Args {
						if n := rootName(fn, a, 0); n != "" {
							sorted[n] = true
						}
					}
				}
			}
		}
		for _, b := range fn.Blocks {
			if !inMapRangeLoop(fn, b) {
				continue
			}
			for _, in := range b.Instrs {
				c, ok := in.(*ssa.Call)
				if !ok {
					continue
				}
				bi, ok := c.Call.Value.(*ssa.Builtin)
				if !ok || bi.Name() != "append" || len(c.Call.Args) == 0 {
					continue
				}
				n := rootName(fn, c.Call.Args[0], 0)
				if n == "" {
					// the destination of the append result
					if refs := c.Referrers(); refs != nil {
						for _, r := range *refs {
							if st, ok := r.(*ssa.Store); ok {
								n = rootName(fn, st.Addr, 0)
							}
						}
					}
				}
				if sorted[n] {
					if os.Getenv("GOVC_SORTED") != "" && n != "" {
						// sites that are sorted today: printed so that each can be pinned by a flow obligation
						fmt.Printf("SORTED\t%s\t%s\t%s\n", P.Pos(in.Pos()), fn.String(), n)
					}
					continue
				}
				hits = append(hits, hit{P.Pos(in.Pos()), shortFn(fn), n})
			}
		}
	}
	sort.Slice(hits, func(i, j int) bool { return hits[i].pos < hits[j].pos })
	for _, h := range hits {
		fmt.Printf("%s\t%s\tappend to %q inside a range over a map, not sorted afterwards\n", h.pos, h.fn, h.what)
	}
	fmt.Printf("%d candidate(s)\n", len(hits))
}

func (P *Program) isSourcePkg(p *types.Package) bool {
	P.mutOnce.Do(P.computeMutableFields)
	return P.sourcePkg[p]
}

func rootName(fn *ssa.Function, v ssa.Value, depth int) string {
	if depth > 6 {
		return ""
	}
	switch t := v.(type) {
	case *ssa.MakeInterface:
		return rootName(fn, t.X, depth+1)
	case *ssa.ChangeType:
		return rootName(fn, t.X, depth+1)
	case *ssa.Slice:
		return rootName(fn, t.X, depth+1)
	case *ssa.UnOp:
		if t.Op == token.MUL {
			return rootName(fn, t.X, depth+1)
		}
	case *ssa.FieldAddr:
		return "." + valueName(fn, t)
	case *ssa.Phi:
		if t.Comment != "" {
			return t.Comment
		}
	case *ssa.Alloc:
		return t.Comment
	case *ssa.Parameter:
		return t.Name()
	case *ssa.Call:
		// append(x, ...) result chains
		if bi, ok := t.Call.Value.(*ssa.Builtin); ok && bi.Name() == "append" && len(t.Call.Args) > 0 {
			return rootName(fn, t.Call.Args[0], depth+1)
		}
	}
	return valueName(fn, v)
}
