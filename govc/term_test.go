package main

import "testing"

func TestOrComplement(t *testing.T) {
	tb := NewTermBank()
	a := tb.Const("a", SBool)
	b := tb.Const("b", SBool)
	c := tb.And(a, b)
	r := tb.Or(tb.Not(c), c)
	if !r.IsTrue() {
		t.Fatalf("got %s", tb.Show(r))
	}
	r2 := tb.Or(tb.And(tb.Const("r", SBool), tb.Not(c)), tb.And(tb.Const("r", SBool), a, b))
	t.Logf("%s", tb.Show(r2))
}
